"""E-INTEG: the compiled integrator performs one_timestep as written (C04).

Real: Integrator subclasses (shipped and user-defined), IntegratorStep classes,
integrator_cython.mako + helper (generated, compiled), SPHCompiler, NNPS.
Reference model: a literal execution of the integrator's Python one_timestep
with a proxy `self`: stageN/initialize call the Python stepper methods (after
the py_stageN hook) over the real particles only; compute_accelerations runs the
(compiled) acceleration evaluator -- C03's subject -- on the reference arrays.
"""
import copy
import inspect
import os

import numpy as np

from vsim.choices import digest
from vsim.runner import InvalidScenario

NAME = 'E-INTEG'
CRASHY = True
RUN_TIMEOUT = 300
NO_SHRINK = {'integrator', 'stepper', 'dim', 'narr'}

SHIPPED_INTEGRATORS = ['EulerIntegrator', 'PECIntegrator', 'EPECIntegrator', 'TVDRK3Integrator', 'LeapFrogIntegrator', 'PEFRLIntegrator']
USER_INTEGRATORS = ['GOneStage', 'GThreeStage', 'GFiveStage', 'GThreeSets']
NEEDS_TWO_EVALS = {'GThreeStage', 'GFiveStage'}
NEEDS_THREE_EVALS = {'GThreeSets'}
# shipped steppers with an integrator they are documented / used with
SHIPPED_STEPPERS = {
    'EulerStep': 'EulerIntegrator', 'WCSPHStep': 'PECIntegrator', 'WCSPHTVDRK3Step': 'TVDRK3Integrator',
    'SolidMechStep': 'EPECIntegrator', 'TransportVelocityStep': 'PECIntegrator', 'AdamiVerletStep': 'PECIntegrator',
    'GasDFluidStep': 'EPECIntegrator', 'GSPHStep': 'EulerIntegrator', 'ADKEStep': 'PECIntegrator',
    'VerletSymplecticWCSPHStep': 'PECIntegrator', 'VelocityVerletSymplecticWCSPHStep': 'PECIntegrator',
    'InletOutletStep': 'PECIntegrator', 'LeapFrogStep': 'LeapFrogIntegrator', 'PEFRLStep': 'PEFRLIntegrator',
}
QUICK_SHIPPED = ['EulerStep', 'WCSPHStep', 'WCSPHTVDRK3Step', 'TransportVelocityStep', 'LeapFrogStep', 'PEFRLStep']

PROPS = {
    'C04': dict(
        rule=('one run = one (integrator, steppers) program -- every shipped integrator and three user-defined ones (1, 3, 5 stages, '
              'py_stage hooks, two equation sets, update_nnps=False) with tracing steppers (one or two arrays with different stepper '
              'classes), and shipped steppers with the integrator they are used with -- stepped 1-4 consecutive times from drawn states '
              '(t0 != 0, non-contiguous times), with ghost-tagged particles and optionally a periodic domain, serially or under a '
              'simulated loop schedule; final state and the compute_accelerations / update_domain / post-stage history compared with the '
              'literal execution of one_timestep; non-trivial always; distinct = digest of (program, steps, sizes)'),
        sim_unit='integrator steps',
        components=dict(real=['pysph/sph/integrator.py, integrator_step.py', 'integrator_cython.mako + helper (generated, compiled)',
                              'SPHCompiler, LinkedListNNPS, DomainManager'],
                        simulated=['loop schedule through hook H1 (part of the runs)'],
                        model=['literal execution of the Python one_timestep with a proxy self and the Python stepper methods'],
                        shared=['the compiled acceleration evaluator is used by both sides (its correctness is C03\'s subject)']),
        assumptions=['tracing steppers/equations: exact equality; shipped steppers: relative 1e-13',
                     'steppers index their arrays only by d_idx (rigid-body steppers with body-indexed arrays are left out)'],
        quick=dict(runs=3000, budget_s=100),
        thorough=dict(runs=300000, budget_s=2400),
    ),
}
PROBES = {'C04': ['ghost_particles_present', 'periodic_domain', 'two_arrays_different_steppers', 'update_nnps_false', 'second_equation_set',
                  'py_stage_hook', 'py_hook_injects_particles', 'same_stepper_class_different_parameters', 'py_hook_reads_other_array', 'h_grows_during_step', 'empty_array', 'sourceless_equation_set', 'callback_object_with_false_truth_value', 'callback_bound_method_of_a_temporary', 'same_named_integrator_class_compiled_before', 'three_equation_sets', 'first_array_stepper_lacks_stages', 'several_steps', 'noncontiguous_times', 't0_nonzero', 'sim_schedule', 'shipped_stepper', 'history_compared']}


def needs_isolation(sc):
    # Every run gets its own forked child with the cyclic garbage collector off: after some tens of integrator set-ups in one
    # process the interpreter segfaulted while garbage-collecting objects of earlier generated modules (not investigated; object
    # tear-down is not part of C04), and a worker that toggles between the serial and the simulated-schedule programs is kept clean.
    return True


def _programs(tier):
    progs = []
    for integ in SHIPPED_INTEGRATORS + USER_INTEGRATORS:
        for narr in (1, 2):
            progs.append(dict(integrator=integ, stepper='trace', narr=narr))
        # two arrays stepped by the same stepper class with different parameters
        progs.append(dict(integrator=integ, stepper='trace_same', narr=2))
    for integ in ('PECIntegrator', 'GFiveStage', 'TVDRK3Integrator'):
        # the array that comes first by name has a stepper with one stage only, the other a full one
        progs.append(dict(integrator=integ, stepper='trace_partial', narr=2))
    for integ in ('EulerIntegrator', 'PECIntegrator', 'TVDRK3Integrator'):
        # a py_stage hook that injects real particles (every compute_accelerations of these integrators refreshes the neighbours)
        progs.append(dict(integrator=integ, stepper='trace_inject', narr=1))
    names = QUICK_SHIPPED if tier == 'quick' else sorted(SHIPPED_STEPPERS)
    for s in names:
        progs.append(dict(integrator=SHIPPED_STEPPERS[s], stepper=s, narr=1))
    return progs


def prepare(prop, tier):
    from vsim import build
    build.activate()
    import pysph.sph.integrator  # noqa
    import pysph.sph.integrator_step  # noqa
    from vsim import runner
    from vsim.choices import Tape
    import sys
    me = sys.modules[__name__]
    pids = []
    for k, pr in enumerate(_programs(tier)):
        for sim in (0, 1):
            p = os.fork()
            if p == 0:
                try:
                    sc = _scenario(Tape(1000 + k), pr, sim_override=sim)
                    kk, v = runner.run_isolated(me, sc, prop, timeout=1500)
                    os._exit(0 if kk in ('ok', 'invalid') else 1)
                finally:
                    os._exit(1)
            pids.append(p)
            if len(pids) >= 16:
                os.waitpid(pids.pop(0), 0)
    for p in pids:
        os.waitpid(p, 0)


def _scenario(t, pr, sim_override=None):
    # shipped steppers move particles along y and z as well: their problems are 3-D
    dim = 1 if pr['stepper'].startswith('trace') else 3
    arrays = []
    for a in range(pr['narr']):
        n = t.choice([2, 4, 7, 12])
        ng = t.choice([0, 0, 2, 3])
        arrays.append(dict(n=n, nghost=ng, seed=t.int(1, 1 << 30), h=t.choice([0.08, 0.12])))
    if pr['narr'] == 2 and pr['stepper'] in ('trace', 'trace_same') and t.bool(0.2):
        # an array that holds no particle at all (an outlet before anything has reached it)
        arrays[t.int(0, 1)].update(n=0, nghost=0)
    steps = []
    t0 = t.choice([0.0, 0.0, 0.5, 2.0])
    tt = t0
    for k in range(t.choice([1, 1, 2, 3, 4])):
        dt = t.choice([0.0625, 0.125, 0.25])
        steps.append([tt, dt])
        tt = tt + dt if t.bool(0.8) else tt + dt + 1.0
    return dict(integrator=pr['integrator'], stepper=pr['stepper'], narr=pr['narr'], dim=dim, arrays=arrays, steps=steps,
                periodic=int(pr['stepper'] in ('trace', 'trace_same', 'trace_partial') and t.bool(0.3)), sim=int(t.bool(0.4)) if sim_override is None else sim_override,
                sched_seed=t.int(0, 1 << 30), threads=t.choice([2, 3, 4]), c=[float(t.int(1, 9)), float(t.int(1, 9))],
                move=t.choice([0.0, 0.01, 0.03]), grow=t.choice([1.0, 1.0, 1.3, 1.7]), peer=int(t.bool(0.6)),
                nosrc_set=(t.choice([0, 1]) if (pr['integrator'] in NEEDS_TWO_EVALS and t.bool(0.35)) else None),
                named_groups=int(pr['integrator'] in NEEDS_THREE_EVALS and t.bool(0.6)), decoy=int(t.bool(0.15)))


def gen(t, prop, tier):
    progs = _programs(tier)
    return _scenario(t, progs[t.int(0, len(progs) - 1)])


def sig_of(sc):
    return dict(integrator=sc.get('integrator'), stepper=sc.get('stepper'), narr=sc.get('narr'), sim=bool(sc.get('sim')))


# ----------------------------------------------------------------------------
def _stepper_props(stepper):
    props = set()
    for name in dir(stepper):
        if name == 'initialize' or (name.startswith('stage') and name[5:].isdigit()):
            for p in inspect.signature(getattr(stepper, name)).parameters:
                if p.startswith('d_') and p != 'd_idx':
                    props.add(p[2:])
    return props


def _make_setup(sc):
    """arrays, steppers, integrator, equations (fresh objects every call)"""
    from pysph.base.utils import get_particle_array
    import pysph.sph.integrator as I
    import pysph.sph.integrator_step as S
    from pysph.sph.equation import MultiStageEquations
    from engines import integ_defs as D
    integ_name = sc['integrator']
    st = sc['stepper']
    narr = int(sc['narr'])
    names = ['f', 'g'][:narr]
    cvals = [float(v) for v in (sc.get('c') or [1.0, 2.0])]
    arrays = []
    steppers = {}
    for a, name in enumerate(names):
        spec = sc['arrays'][a]
        n, ng = int(spec['n']), int(spec['nghost'])
        if not (0 <= n <= 40 and 0 <= ng <= 10) or (n == 0 and (ng > 0 or narr < 2 or not st.startswith('trace'))):
            raise InvalidScenario('sizes')
        rng = np.random.RandomState(int(spec['seed']) % (1 << 31))
        ntot = n + ng
        x = np.round(rng.randint(0, 13, size=ntot) * 0.1 + 0.013 * a + 0.0007 * np.arange(ntot), 6)
        tag = np.zeros(ntot, dtype=np.int32)
        tag[n:] = 2
        pa = get_particle_array(name=name, x=x, h=np.ones(ntot) * float(spec['h']), m=np.ones(ntot), tag=tag)
        if st.startswith('trace'):
            for p in ('s', 's0'):
                pa.add_property(p)
            pa.get('s', only_real_particles=False)[:] = rng.randint(1, 900000, size=ntot).astype(float)
            pa.add_constant('c0', 1.0)
            if st == 'trace_inject':
                steppers[name] = D.TStepInject(c=cvals[0])
            elif st == 'trace_partial':
                steppers[name] = D.TStepPartial(c=cvals[0]) if a == 0 else D.TStepB(c=cvals[1])
            elif st == 'trace_same':
                # the second array's py_stage1 hook reads the first array's state (already stepped in that stage)
                steppers[name] = D.TStep(c=cvals[a], move=float(sc.get('move', 0.0)) * (1 + a), grow=float(sc.get('grow', 1.0)),
                                         peer=float(a == 1 and bool(sc.get('peer'))))
            else:
                steppers[name] = (D.TStep(c=cvals[0], move=float(sc.get('move', 0.0)), grow=float(sc.get('grow', 1.0)))
                                  if a == 0 else D.TStepB(c=cvals[1]))
        else:
            stepper = getattr(S, st)()
            for p in sorted(_stepper_props(stepper)):
                if p not in pa.properties:
                    pa.add_property(p)
                if p not in ('x', 'h', 'm'):
                    vals = rng.randint(-8, 9, size=ntot) * 0.125
                    if p in ('rho', 'rho0', 'e', 'e0', 'h0'):
                        vals = np.abs(vals) + 1.0
                    pa.get(p, only_real_particles=False)[:] = vals
            steppers[name] = stepper
        arrays.append(pa)
    if integ_name in SHIPPED_INTEGRATORS:
        cls = getattr(I, integ_name)
    elif integ_name in USER_INTEGRATORS:
        cls = getattr(D, integ_name)
    else:
        raise InvalidScenario('integrator')
    integ = cls(**steppers)
    if st.startswith('trace'):
        e0 = [D.TAcc(dest=nm, sources=names, c=3.0) for nm in names]
        e1 = [D.TAcc(dest=nm, sources=names, c=5.0) for nm in names]
        if sc.get('nosrc_set') in (0, 1) and integ_name in NEEDS_TWO_EVALS:
            # one of the two equation sets holds source-less equations only
            body = [D.TAccNoSrc(dest=nm, sources=None, c=7.0) for nm in names]
            if sc['nosrc_set'] == 0:
                e0 = body
            else:
                e1 = body
        eqs = MultiStageEquations([e0, e1]) if integ_name in NEEDS_TWO_EVALS else e0
        if integ_name in NEEDS_THREE_EVALS:
            # three sets of the same equation classes that differ in a parameter only; optionally each in a group of the same name
            sets = [e0, e1, [D.TAcc(dest=nm, sources=names, c=9.0) for nm in names]]
            if sc.get('named_groups'):
                from pysph.sph.equation import Group
                sets = [[Group(equations=e, name='forces')] for e in sets]
            eqs = MultiStageEquations(sets)
    else:
        eqs = [D.Noop(dest='f', sources=None)]
    return arrays, steppers, integ, eqs


def _compile(arrays, integ, eqs, dim, periodic, rs=2.0, reference=False):
    from pysph.base.kernels import CubicSpline
    from pysph.base.nnps import LinkedListNNPS, DomainManager
    from pysph.sph.acceleration_eval import make_acceleration_evals
    from pysph.sph.sph_compiler import SPHCompiler
    import pysph.sph.equation as _EQ
    _EQ.group_counter = _EQ._counter()
    a_evals = make_acceleration_evals(arrays, eqs, CubicSpline(dim=dim))
    if reference:
        # the literal execution gets every equation set compiled on its own (no integrator, no sharing between the sets)
        for ae in a_evals:
            SPHCompiler(ae, None).compile()
    else:
        comp = SPHCompiler(a_evals, integ)
        comp.compile()
    dom = DomainManager(xmin=0.0, xmax=1.3, periodic_in_x=True) if periodic else None
    nnps = LinkedListNNPS(dim=dim, particles=arrays, radius_scale=rs, sort_gids=True, domain=dom)
    for ae in a_evals:
        ae.set_nnps(nnps)
    if not reference:
        integ.set_nnps(nnps)
    return a_evals, nnps


class Proxy(object):
    """`self` for the literal execution of one_timestep"""
    def __init__(self, arrays, steppers, a_evals, nnps, log):
        self._pas = {pa.name: pa for pa in arrays}
        self._steppers = steppers
        self._a_evals = a_evals
        self._nnps = nnps
        self._log = log
        self.t0 = 0.0
        self.t_cur = 0.0
        self.dt = 0.0

    def _col(self, pa, name):
        if name in pa.properties:
            return pa.get(name, only_real_particles=False)
        return pa.constants[name].get_npy_array()

    def _stage(self, method):
        for dest in sorted(self._steppers):
            stepper = self._steppers[dest]
            pa = self._pas[dest]
            if hasattr(stepper, 'py_' + method):
                getattr(stepper, 'py_' + method)(pa, self.t_cur, self.dt)
            if hasattr(stepper, method):
                fn = getattr(stepper, method)
                params = list(inspect.signature(fn).parameters)
                nreal = pa.num_real_particles
                cols = {p: self._col(pa, p[2:]) for p in params if p.startswith('d_') and p != 'd_idx'}
                for d in range(nreal):
                    args = []
                    for p in params:
                        if p == 'd_idx':
                            args.append(d)
                        elif p == 't':
                            args.append(self.t_cur)
                        elif p == 'dt':
                            args.append(self.dt)
                        else:
                            args.append(cols[p])
                    fn(*args)

    def __getattr__(self, name):
        if name == 'initialize' or (name.startswith('stage') and name[5:].isdigit()):
            return lambda: self._stage(name)
        raise AttributeError(name)

    def compute_accelerations(self, index=0, update_nnps=True):
        self._log.append(('acc', int(index), bool(update_nnps), self.t_cur, self.dt))
        if update_nnps:
            self._nnps.update()
        self._a_evals[index].compute(self.t_cur, self.dt)

    def update_domain(self):
        self._log.append(('dom',))
        self._nnps.update_domain()

    def do_post_stage(self, stage_dt, stage):
        self.t_cur = self.t0 + stage_dt
        self._log.append(('post', self.t_cur, self.dt, int(stage)))


def execute(sc, prop):
    from pysph.base.nnps_base import set_number_of_threads
    from vsim import omp_sim
    try:
        dim = int(sc.get('dim', 1))
        steps = [[float(a), float(b)] for a, b in sc.get('steps', [])]
        assert dim == (1 if sc['stepper'].startswith('trace') else 3) and 1 <= len(steps) <= 6 and all(b > 0 for a, b in steps)
        assert sc['stepper'] in ('trace', 'trace_same', 'trace_inject', 'trace_partial') or sc['stepper'] in SHIPPED_STEPPERS
        assert len(sc['arrays']) == int(sc['narr'])
    except Exception as e:
        raise InvalidScenario(repr(e))
    import gc
    gc.disable()
    viol = []
    probes = {}

    def probe(n, k=1):
        probes[n] = probes.get(n, 0) + k

    def violate(inv, detail, **sig):
        if len(viol) < 3:
            s = sig_of(sc)
            s.update(sig)
            viol.append(dict(invariant=inv, detail=detail, sig=s))
    periodic = bool(sc.get('periodic')) and sc['stepper'] in ('trace', 'trace_same', 'trace_partial')
    sim = bool(sc.get('sim'))
    for k in ('PYSPH_VERIF_SCHED', 'PYSPH_VERIF_SCHED_MODULE'):
        os.environ.pop(k, None)
    # ---- reference (always the serial program)
    set_number_of_threads(1)
    r_arrays, r_steppers, r_integ, r_eqs = _make_setup(sc)
    if periodic:
        for pa in r_arrays:
            xs = pa.get('x', only_real_particles=False)
            if len(xs) and (xs.min() < 0 or xs.max() > 1.3):
                raise InvalidScenario('outside the periodic box')
    try:
        r_evals, r_nnps = _compile(r_arrays, r_integ, r_eqs, dim, periodic, reference=True)
    except Exception as e:
        import traceback
        violate('setup-raised', 'compiling the integrator raised %r\n%s' % (e, traceback.format_exc()[-600:]))
        return dict(violations=viol, digest=0, nontrivial=False, faults={}, probes=probes, sim=0.0, inconclusive=False)
    from engines import integ_defs as _D
    _D.REG.clear()
    _D.REG.update({pa.name: pa for pa in r_arrays})
    r_log = []
    proxy = Proxy(r_arrays, r_steppers, r_evals, r_nnps, r_log)
    one_timestep = type(r_integ).one_timestep
    for (t0, dt) in steps:
        proxy.t0 = t0
        proxy.t_cur = t0
        proxy.dt = dt
        r_log.append(('step', t0, dt))
        one_timestep(proxy, t0, dt)
    # ---- the compiled integrator
    threads = max(1, min(8, int(sc.get('threads', 2))))
    if sim:
        os.environ['PYSPH_VERIF_SCHED'] = '1'
        os.environ['PYSPH_VERIF_SCHED_MODULE'] = 'vsim.omp_sim'
        set_number_of_threads(threads)
        probe('sim_schedule')
    arrays, steppers, integ, eqs = _make_setup(sc)
    exact_run = sc['stepper'].startswith('trace')
    log = []
    try:
        if sim:
            omp_sim.SCHED.configure(threads, int(sc.get('sched_seed', 0)), 'mixed', watch=arrays, check_prob=0.2)
        if sc.get('decoy') and exact_run:
            # another integrator class of the same name (another scheme module, say) was compiled earlier in this process
            from pysph.base.utils import get_particle_array as _gpa
            import pysph.sph.integrator as _I
            Dec = type(type(integ).__name__, (_I.Integrator,), {'one_timestep': _D.decoy_one_timestep})
            dpa = _gpa(name='f', x=np.array([0.0, 0.1]), h=np.ones(2) * 0.1, m=np.ones(2))
            for p in ('s', 's0'):
                dpa.add_property(p)
            _compile([dpa], Dec(f=_D.TStepB(c=1.0)), [_D.TAcc(dest='f', sources=['f'], c=3.0)], 1, False)
            probe('same_named_integrator_class_compiled_before')
        a_evals, nnps = _compile(arrays, integ, eqs, dim, periodic)
        c_int = integ.c_integrator
        orig_ca = integ.compute_accelerations
        orig_ud = integ.update_domain

        def ca(index=0, update_nnps=True):
            log.append(('acc', int(index), bool(update_nnps), c_int.t, c_int.dt))
            return orig_ca(index, update_nnps)

        def ud():
            log.append(('dom',))
            return orig_ud()
        integ.compute_accelerations = ca
        integ.update_domain = ud
        if int(sc.get('sched_seed', 0)) % 3 == 2:
            # a bound method of an object nobody else refers to
            class _Owner(object):
                def record(self, t, dt, stage):
                    log.append(('post', t, dt, int(stage)))
            integ.set_post_stage_callback(_Owner().record)
            probe('callback_bound_method_of_a_temporary')
        elif int(sc.get('sched_seed', 0)) % 3 == 1:
            # any callable is a legal callback, also one whose truth value is False (here: an empty list subclass)
            class _Recorder(list):
                def __call__(self, t, dt, stage):
                    log.append(('post', t, dt, int(stage)))
            integ.set_post_stage_callback(_Recorder())
            probe('callback_object_with_false_truth_value')
        else:
            integ.set_post_stage_callback(lambda t, dt, stage: log.append(('post', t, dt, int(stage))))
        _D.REG.clear()
        _D.REG.update({pa.name: pa for pa in arrays})
        for (t0, dt) in steps:
            log.append(('step', t0, dt))
            integ.step(t0, dt)
    except Exception as e:
        import traceback
        violate('step-raised', 'the compiled integrator raised %r\n%s' % (e, traceback.format_exc()[-600:]))
        return dict(violations=viol, digest=0, nontrivial=True, faults={}, probes=probes, sim=0.0, inconclusive=False)
    finally:
        if sim:
            omp_sim.SCHED.leave()
            for k in ('PYSPH_VERIF_SCHED', 'PYSPH_VERIF_SCHED_MODULE'):
                os.environ.pop(k, None)
            set_number_of_threads(1)
    if sim:
        for wv in omp_sim.SCHED.violations:
            violate('write-outside-own-row', wv)
    exact = sc['stepper'].startswith('trace')
    if sc['stepper'] == 'trace_inject':
        probe('py_hook_injects_particles')
    if sc['stepper'] == 'trace_partial':
        probe('first_array_stepper_lacks_stages')
    if sc['stepper'] == 'trace_same':
        probe('same_stepper_class_different_parameters')
        if sc.get('peer'):
            probe('py_hook_reads_other_array')
    if exact and float(sc.get('grow', 1.0)) > 1.0 and sc['stepper'] != 'trace_inject':
        probe('h_grows_during_step')
    if not exact:
        probe('shipped_stepper')
    if len(steps) > 1:
        probe('several_steps')
        if any(abs(steps[i + 1][0] - (steps[i][0] + steps[i][1])) > 1e-12 for i in range(len(steps) - 1)):
            probe('noncontiguous_times')
    if steps[0][0] != 0:
        probe('t0_nonzero')
    if periodic:
        probe('periodic_domain')
    if any(int(a['n']) == 0 for a in sc['arrays']):
        probe('empty_array')
    if int(sc['narr']) > 1:
        probe('two_arrays_different_steppers')
    if any(e[0] == 'acc' and not e[2] for e in r_log):
        probe('update_nnps_false')
    if any(e[0] == 'acc' and e[1] == 1 for e in r_log):
        probe('second_equation_set')
    if any(e[0] == 'acc' and e[1] == 2 for e in r_log):
        probe('three_equation_sets')
    if sc.get('nosrc_set') in (0, 1) and sc['integrator'] in NEEDS_TWO_EVALS and exact:
        probe('sourceless_equation_set')
    if exact:
        probe('py_stage_hook')
    for pa, ref in zip(arrays, r_arrays):
        if (pa.get('tag', only_real_particles=False) != 0).any():
            probe('ghost_particles_present')
        if pa.get_number_of_particles() != ref.get_number_of_particles():
            violate('state-differs-from-literal-execution', 'array %s has %d particles, the literal execution %d'
                    % (pa.name, pa.get_number_of_particles(), ref.get_number_of_particles()))
            break
        for p in sorted(pa.properties):
            a = pa.get(p, only_real_particles=False)
            b = ref.get(p, only_real_particles=False)
            if exact:
                same = (a == b) | ((a != a) & (b != b))
            else:
                same = np.isclose(a, b, rtol=1e-13, atol=0.0, equal_nan=True)
            if not same.all():
                i = int(np.nonzero(~same)[0][0])
                tg = int(pa.get('tag', only_real_particles=False)[i])
                violate('state-differs-from-literal-execution',
                        '%s with %s: array %s property %s of particle %d (tag %d) is %r, the literal execution of one_timestep gives %r '
                        '(%d of %d differ) after steps %r' % (sc['integrator'], sc['stepper'], pa.name, p, i, tg, float(a[i]), float(b[i]),
                                                              int((~same).sum()), len(a), steps), prop_name=p, ghost=bool(tg))
                break
        if viol:
            break
        for c in sorted(pa.constants):
            a = pa.constants[c].get_npy_array()
            b = ref.constants[c].get_npy_array()
            if not np.array_equal(a, b):
                violate('state-differs-from-literal-execution', 'array %s constant %s is %r, literal execution %r' % (pa.name, c, a.tolist(), b.tolist()),
                        prop_name=c)
                break
    probe('history_compared')
    if log != r_log:
        k = next((i for i, (x, y) in enumerate(zip(log, r_log)) if x != y), min(len(log), len(r_log)))
        violate('call-history-differs', '%s: compute_accelerations / update_domain / post-stage history differs at event %d: compiled %r, literal %r'
                % (sc['integrator'], k, log[k:k + 3], r_log[k:k + 3]))
    shape = (sc['integrator'], sc['stepper'], sc['narr'], steps, [(a['n'], a['nghost']) for a in sc['arrays']], periodic, sim)
    return dict(violations=viol, digest=digest(repr(shape)), nontrivial=True, faults=({'simulated_loop_schedule': 1} if sim else {}),
                probes=probes, sim=float(len(steps)),
                inconclusive=False, stratum='%s/%s' % (sc['integrator'], sc['stepper']))
