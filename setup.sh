#!/bin/sh
# Offline set-up: verifies the interpreter has what the checks need, builds the
# overlay of /repo's working tree (Cython extensions, ~45 s) and pre-compiles the
# run-time generated programs used by the quick tier.
cd "$(dirname "$0")" || exit 2
set -e
/venv/bin/python - <<'PY'
import importlib, sys
missing = [m for m in ('numpy', 'Cython', 'mako', 'compyle', 'cyarray') if importlib.util.find_spec(m) is None]
if missing:
    print('setup: missing modules in /venv: %s' % missing); sys.exit(2)
PY
/venv/bin/python -m vsim.build
# the simulated threading primitives must agree with CPython's before anything built on them is believed
/venv/bin/python -m vsim.test_simthreads
/venv/bin/python check.py --warm
