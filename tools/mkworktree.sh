#!/bin/sh
# tools/mkworktree.sh <dir>: scratch git worktree of /repo HEAD with the compiled
# extension modules of the current overlay copied in (valid while no .pyx/.pxd changes)
set -e
D=$1
git -C /repo worktree add -q --detach "$D" HEAD
EXT=$(/venv/bin/python -c "
import sys; sys.path.insert(0,'/verif')
from vsim import build; print(build.ensure_overlay()['home'][:-5])")
(cd "$EXT/so" && find . -name '*.so' | while read f; do cp "$f" "$D/$f"; done)
mkdir -p "$D/.home"
echo "$D ready"
