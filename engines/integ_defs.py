"""User-defined integrators, tracing steppers and equations for E-INTEG (C04).
They live in a real module file because the code generator reads their source."""
from pysph.sph.equation import Equation
from pysph.sph.integrator import Integrator
from pysph.sph.integrator_step import IntegratorStep


class GOneStage(Integrator):
    def one_timestep(self, t, dt):
        self.compute_accelerations()
        self.stage1()
        self.update_domain()
        self.do_post_stage(dt, 1)


class GThreeStage(Integrator):
    def one_timestep(self, t, dt):
        self.initialize()
        self.compute_accelerations(0, update_nnps=False)
        self.stage1()
        self.do_post_stage(0.25*dt, 1)
        self.update_domain()
        self.compute_accelerations(1)
        self.stage2()
        self.do_post_stage(0.5*dt, 2)
        self.compute_accelerations(0)
        self.stage3()
        self.update_domain()
        self.do_post_stage(dt, 3)


class GFiveStage(Integrator):
    def one_timestep(self, t, dt):
        self.stage1()
        self.do_post_stage(0.125*dt, 1)
        self.update_domain()
        self.compute_accelerations(1, update_nnps=True)
        self.stage2()
        self.do_post_stage(0.25*dt, 2)
        self.initialize()
        self.compute_accelerations(0, update_nnps=False)
        self.stage3()
        self.update_domain()
        self.do_post_stage(0.5*dt, 3)
        self.compute_accelerations(1)
        self.stage4()
        self.do_post_stage(0.75*dt, 4)
        self.stage5()
        self.update_domain()
        self.do_post_stage(dt, 5)


class GThreeSets(Integrator):
    """three equation sets"""
    def one_timestep(self, t, dt):
        self.compute_accelerations(0)
        self.stage1()
        self.do_post_stage(0.5*dt, 1)
        self.compute_accelerations(1)
        self.stage2()
        self.do_post_stage(0.75*dt, 2)
        self.compute_accelerations(2)
        self.stage3()
        self.update_domain()
        self.do_post_stage(dt, 3)


def decoy_one_timestep(self, t, dt):
    self.stage1()
    self.do_post_stage(dt, 1)


# arrays of the side (compiled / literal) that is currently stepping, by name: lets a py hook of one array look at another
REG = {}


class TStep(IntegratorStep):
    """tracing stepper: exact integer arithmetic mod 1000003; every stage folds the stage time t and dt into the state
    and moves the particle a little so that neighbours change; optionally grows h (the domain update must then refresh
    the cell size) and lets its py_stage1 hook read the state of the array stepped before it"""
    def __init__(self, c=1.0, move=0.02, grow=1.0, peer=0.0):
        self.c = c
        self.move = move
        self.grow = grow
        self.peer = peer
        self._b = 2.0*c + 1.0       # an attribute with a leading underscore is a stepper parameter like any other

    def py_stage1(self, dst, t, dt):
        dst.c0[0] = (3.0*dst.c0[0] + self.c + 8.0*t + 1600.0*dt) % 1000003.0
        if self.peer > 0.5:
            import engines.integ_defs as _D
            other = _D.REG.get('f')
            if other is not None and other is not dst:
                dst.c0[0] = (dst.c0[0] + float(other.get('s', only_real_particles=False).sum())) % 1000003.0

    def py_stage3(self, dst, t, dt):
        dst.c0[0] = (5.0*dst.c0[0] + 2.0*self.c + 8.0*t + 1600.0*dt) % 1000003.0

    def initialize(self, d_idx, d_s, d_s0, t, dt):
        d_s0[d_idx] = d_s[d_idx]
        d_s[d_idx] = (3.0*d_s[d_idx] + self.c + 8.0*t + 1600.0*dt) % 1000003.0

    def stage1(self, d_idx, d_s, d_au, d_c0, d_x, d_h, t, dt):
        d_s[d_idx] = (5.0*d_s[d_idx] + d_au[d_idx] + d_c0[0] + 8.0*t + 1600.0*dt + self.c) % 1000003.0
        d_x[d_idx] = d_x[d_idx] + self.move*((d_s[d_idx] % 3.0) - 1.0)
        d_h[d_idx] = d_h[d_idx]*self.grow

    def stage2(self, d_idx, d_s, d_s0, d_au, d_x, t, dt):
        d_s[d_idx] = (7.0*d_s[d_idx] + d_s0[d_idx] + 2.0*d_au[d_idx] + 8.0*t + 1600.0*dt + self._b) % 1000003.0
        d_x[d_idx] = d_x[d_idx] + self.move*((d_s[d_idx] % 3.0) - 1.0)

    def stage3(self, d_idx, d_s, d_au, d_c0, t, dt):
        d_s[d_idx] = (11.0*d_s[d_idx] + d_au[d_idx] + d_c0[0] + 8.0*t + 1600.0*dt + 1.0) % 1000003.0

    def stage4(self, d_idx, d_s, d_au, d_x, t, dt):
        d_s[d_idx] = (13.0*d_s[d_idx] + d_au[d_idx] + 8.0*t + 1600.0*dt + 2.0) % 1000003.0
        d_x[d_idx] = d_x[d_idx] + self.move*((d_s[d_idx] % 3.0) - 1.0)

    def stage5(self, d_idx, d_s, d_s0, d_au, t, dt):
        d_s[d_idx] = (17.0*d_s[d_idx] + d_au[d_idx] + d_s0[d_idx] + 8.0*t + 1600.0*dt + 3.0) % 1000003.0


class TStepInject(IntegratorStep):
    """a stepper whose py_stage1 hook injects a real particle (inlet-like) before the stage is applied"""
    def __init__(self, c=1.0):
        self.c = c

    def py_stage1(self, dst, t, dt):
        dst.c0[0] = (3.0*dst.c0[0] + self.c + 8.0*t + 1600.0*dt) % 1000003.0
        if dst.get_number_of_particles(True) < 30:
            dst.add_particles(x=[0.05 + 0.001*dst.c0[0] % 0.9], s=[7.0 + self.c], h=[dst.h[0]], m=[1.0])

    def initialize(self, d_idx, d_s, d_s0):
        d_s0[d_idx] = d_s[d_idx]

    def stage1(self, d_idx, d_s, d_au, d_c0, t, dt):
        d_s[d_idx] = (5.0*d_s[d_idx] + d_au[d_idx] + d_c0[0] + 8.0*t + 1600.0*dt + self.c) % 1000003.0

    def stage2(self, d_idx, d_s, d_s0, d_au, t, dt):
        d_s[d_idx] = (7.0*d_s[d_idx] + d_s0[d_idx] + 2.0*d_au[d_idx] + 8.0*t + 1600.0*dt) % 1000003.0

    def stage3(self, d_idx, d_s, d_au, t, dt):
        d_s[d_idx] = (11.0*d_s[d_idx] + d_au[d_idx] + 8.0*t + 1600.0*dt + 1.0) % 1000003.0


class TStepPartial(IntegratorStep):
    """a stepper that defines one stage only (no initialize, nothing for the later stages)"""
    def __init__(self, c=1.0):
        self.c = c

    def stage1(self, d_idx, d_s, d_au, t, dt):
        d_s[d_idx] = (41.0*d_s[d_idx] + d_au[d_idx] + 8.0*t + 1600.0*dt + self.c) % 1000003.0


class TStepB(IntegratorStep):
    """a second stepper class (different per-array steppers): no py hooks, other constants"""
    def __init__(self, c=2.0):
        self.c = c
        self._q = 3.0*c

    def initialize(self, d_idx, d_s, d_s0):
        d_s0[d_idx] = (d_s[d_idx] + 1.0) % 1000003.0

    def stage1(self, d_idx, d_s, d_au, t, dt):
        d_s[d_idx] = (19.0*d_s[d_idx] + d_au[d_idx] + 8.0*t + 1600.0*dt + self.c + self._q) % 1000003.0

    def stage2(self, d_idx, d_s, d_s0, d_au, t, dt):
        d_s[d_idx] = (23.0*d_s[d_idx] + d_s0[d_idx] + d_au[d_idx] + 8.0*t + 1600.0*dt) % 1000003.0

    def stage3(self, d_idx, d_s, d_au, t, dt):
        d_s[d_idx] = (29.0*d_s[d_idx] + d_au[d_idx] + 8.0*t + 1600.0*dt) % 1000003.0

    def stage4(self, d_idx, d_s, d_au, t, dt):
        d_s[d_idx] = (31.0*d_s[d_idx] + d_au[d_idx] + 8.0*t + 1600.0*dt) % 1000003.0

    def stage5(self, d_idx, d_s, d_au, t, dt):
        d_s[d_idx] = (37.0*d_s[d_idx] + d_au[d_idx] + 8.0*t + 1600.0*dt) % 1000003.0


class TAcc(Equation):
    """acceleration = fold of the neighbours' states, the evaluation time and dt"""
    def __init__(self, dest, sources, c=1.0):
        self.c = c
        super(TAcc, self).__init__(dest, sources)

    def initialize(self, d_idx, d_au, t, dt):
        d_au[d_idx] = (self.c + 8.0*t + 1600.0*dt) % 1000003.0

    def loop(self, d_idx, s_idx, d_au, s_s):
        d_au[d_idx] = (7.0*d_au[d_idx] + s_s[s_idx]) % 1000003.0


class TAccNoSrc(Equation):
    """an acceleration without sources (a body force): an equation set may consist of such equations only"""
    def __init__(self, dest, sources, c=1.0):
        self.c = c
        super(TAccNoSrc, self).__init__(dest, sources)

    def initialize(self, d_idx, d_au, t, dt):
        d_au[d_idx] = (self.c + 8.0*t + 1600.0*dt) % 1000003.0


class Noop(Equation):
    def initialize(self, d_idx, d_m):
        d_m[d_idx] = d_m[d_idx]
