"""E-PA: ParticleArray operation histories against a record-list model (C06).

Real: the compiled pysph.base.particle_array.ParticleArray and the constructor
helpers of pysph/base/utils.py.  Model: per array a list of records
{property: tuple of stride values}, a property table {name: (ctype, stride,
default)}, constants and the output list.  After every operation every array is
compared with its model (lengths, strides, types, defaults, multiset of whole
records, constants, alignment).  History dimension only: no schedule, no fault.
"""
import copy
import pickle

import numpy as np

from vsim.choices import digest
from vsim.runner import InvalidScenario

NAME = 'E-PA'
CRASHY = True
RUN_TIMEOUT = 60
NO_SHRINK = set()

UINT_MAX = (1 << 32) - 1
TYPES = ['double', 'float', 'int', 'long', 'unsigned int']
NPT = {'double': np.float64, 'float': np.float32, 'int': np.int32, 'long': np.int64,
       'unsigned int': np.uint32}
# the pool of property names and the (type, stride) variants each may take
POOL = {
    'ident': [('long', 1)],
    'x': [('double', 1)], 'y': [('double', 1)],
    'fv': [('float', 3), ('float', 1)],
    'iv': [('int', 1), ('int', 2)],
    'uv': [('unsigned int', 1)],
    'm9': [('double', 9), ('double', 1), ('double', 3)],
    'lv': [('long', 2), ('long', 1)],
    'q': [('double', 1), ('double', 2), ('float', 1)],
    'r': [('double', 3), ('double', 1), ('int', 1)],
    # user names that resemble the built-in ones (gid, pid, tag)
    'id': [('double', 1)], 'g': [('double', 1), ('float', 1)], 'ta': [('double', 1)],
}
NAMES = sorted(POOL)
CONST_NAMES = ['c0', 'c1', 'cm']

PROPS = {
    'C06': dict(
        rule=('one run = 1-3 particle arrays and a history of <= 40 public ParticleArray operations; '
              'after every operation each array is compared with its record-list model; non-trivial = '
              '>= 3 operations executed; distinct = digest of the executed operation kinds and array shapes'),
        sim_unit='operations',
        components=dict(real=['pysph/base/particle_array.pyx ParticleArray (compiled)', 'pysph/base/utils.py get_particle_array*',
                              'cyarray carrays'], fake=[], model=['record-list model of every operation (this file)']),
        assumptions=['only valid arguments are generated (matching sizes, existing names, equal strides/types for shared properties)',
                     'record comparison is by multiset of whole records: physical order is only checked through the alignment invariant',
                     'resize() is used for shrinking only (growth leaves new slots unspecified by the API)'],
        quick=dict(runs=120000, budget_s=60),
        thorough=dict(runs=3000000, budget_s=1200),
    ),
}

PROBES = {'C06': ['readd_removed_other_stride', 'append_differing_props', 'extract_into_nonempty',
                  'op_on_empty_array', 'nonlocal_tags_at_align', 'pickle_strided', 'set_tag_called',
                  'clear_then_reuse', 'append_update_constants', 'remove_all', 'extract_duplicate_indices',
                  'add_property_fills_empty_array', 'fill_empty_array_with_strided_props_declared', 'remove_unsorted_indices', 'copy_properties_open_ended', 'redeclared_existing_property',
                  'redeclared_existing_strided_property', 'truthy_flag_not_the_True_object', 'replicas_from_particles_info']}


def prepare(prop, tier):
    from vsim import build
    build.activate()
    import pysph.base.particle_array  # noqa
    import pysph.base.utils  # noqa


# ----------------------------------------------------------------------------
def val(ident, name, k, salt=0):
    """a small exactly representable value for component k of property name"""
    # (identities themselves can be overwritten by set(ident=...) and would grow by a factor 24 each time: keep the values
    # small enough for a float32 / int32 property whatever the history)
    return (int(ident) % 100003) * 8 + (NAMES.index(name) if name in NAMES else 0) % 5 + k + 16 * salt


def cast(ctype, v):
    if ctype == 'float':
        return float(np.float32(float(v) + 0.25))
    if ctype == 'double':
        return float(v) + 0.25
    if ctype == 'unsigned int':
        return int(abs(v)) + 7
    if ctype == 'int':
        return -int(v)
    return int(v) * 3


class MArr(object):
    def __init__(self, name, default_tag=0):
        self.name = name
        self.props = {'tag': ('int', 1, default_tag), 'pid': ('int', 1, 0), 'gid': ('unsigned int', 1, UINT_MAX)}
        self.recs = []
        self.consts = {}
        self.aligned = True
        self.out = None      # None = unknown/unchecked

    def default_rec(self):
        return {p: (self.props[p][2],) * self.props[p][1] for p in self.props}


def gen_array(t, idc):
    """spec of an initial array"""
    n = t.wchoice([(0, 2), (1, 2), (2, 2), (3, 2), (5, 2), (8, 2), (13, 1), (30, 1)])
    names = [p for p in NAMES if t.bool(0.55)]
    if t.bool(0.85) and 'ident' not in names:
        names.append('ident')
    props = []
    for p in names:
        ctype, stride = t.choice(POOL[p])
        default = t.choice([0, 0, 1, 3, -2]) if ctype != 'unsigned int' else t.choice([0, 5])
        props.append([p, ctype, stride, default])
    tags = [t.wchoice([(0, 6), (1, 2), (2, 2)]) for _ in range(n)] if t.bool(0.6) else None
    consts = [[c, [t.int(-3, 9) for _ in range(t.int(1, 4))]] for c in CONST_NAMES if t.bool(0.3)]
    how = t.wchoice([('ctor', 5), ('utils', 2), ('add_property', 2)])
    return dict(n=n, props=props, tags=tags, consts=consts, how=how, order=t.int(0, 12), declare_first=int(t.bool(0.3)),
                default_tag=t.wchoice([(0, 8), (1, 1), (2, 1)]))


OPK = [('add_particles', 6), ('remove_particles', 6), ('remove_tagged', 3), ('extract', 6), ('append', 6),
       ('extend', 4), ('resize', 2), ('add_property', 6), ('remove_property', 5), ('add_constant', 2),
       ('retag', 5), ('set_tag', 1), ('set', 4), ('set_const', 1), ('copy_properties', 3), ('copy_over', 2),
       ('set_to_zero', 2), ('empty_clone', 2), ('ensure_properties', 3), ('output_arrays', 2),
       ('get_property_arrays', 2), ('pickle', 3), ('deepcopy', 2), ('align', 3), ('clear', 1), ('info_replicas', 1)]


def gen(t, prop, tier):
    narr = t.wchoice([(1, 3), (2, 5), (3, 2)])
    arrays = [gen_array(t, None) for _ in range(narr)]
    enabled = [(k, w) for k, w in OPK if t.bool(0.7)]
    if not enabled:
        enabled = OPK
    nops = t.choice([2, 4, 8, 12, 20, 40])
    ops = []
    for _ in range(nops):
        k = t.wchoice(enabled)
        ops.append(dict(op=k, a=t.int(0, 2), b=t.int(0, 2), n=t.wchoice([(0, 1), (1, 4), (2, 3), (3, 2), (7, 1)]),
                        idx=[t.int(0, 40) for _ in range(t.int(0, 5))], name=t.choice(NAMES), name2=t.choice(NAMES),
                        variant=t.int(0, 2), flag=t.int(0, 1), flag2=t.int(0, 1), tag=t.int(0, 2),
                        subset=[t.int(0, 1) for _ in NAMES], salt=t.int(1, 9), default=t.choice([0, 0, 1, 4, -3])))
    return dict(arrays=arrays, ops=ops)


def describe(sc):
    return sc


# ----------------------------------------------------------------------------
class World(object):
    def __init__(self):
        self.real = []
        self.model = []
        self.next_id = 1
        self.viol = []
        self.probes = {}
        self.kinds = []
        self.removed = {}     # (array index, name) -> stride it was removed with

    def probe(self, n, k=1):
        self.probes[n] = self.probes.get(n, 0) + k

    def violate(self, inv, detail, **sig):
        if len(self.viol) < 5:
            self.viol.append(dict(invariant=inv, detail=detail, sig=sig))

    def new_ids(self, n):
        ids = list(range(self.next_id, self.next_id + n))
        self.next_id += n
        return ids


def rec_for(m, ident, salt=0, tag=None):
    r = {}
    for p, (ctype, stride, default) in m.props.items():
        if p == 'tag':
            r[p] = (m.props['tag'][2] if tag is None else tag,)
        elif p == 'pid':
            r[p] = (0,)
        elif p == 'gid':
            r[p] = (ident + 100,)
        elif p == 'ident':
            r[p] = (ident,)
        else:
            r[p] = tuple(cast(ctype, val(ident, p, k, salt)) for k in range(stride))
    return r


def flat(recs, p, ctype):
    out = []
    for r in recs:
        out.extend(r[p])
    return np.asarray(out, dtype=NPT[ctype])


def real_records(pa):
    """records of the real array, in storage order"""
    n = pa.get_number_of_particles()
    cols = {}
    for p, arr in pa.properties.items():
        a = arr.get_npy_array()
        cols[p] = a
    recs = []
    for i in range(n):
        r = {}
        for p, a in cols.items():
            s = len(a) // n if n else 1
            r[p] = tuple(a[i * s:(i + 1) * s].tolist())
        recs.append(r)
    return recs


def canon(r):
    return tuple(sorted((p, tuple(float(x) if isinstance(x, float) else int(x) for x in v)) for p, v in r.items()))


def compare(w, ai, opdesc):
    pa = w.real[ai]
    m = w.model[ai]
    n = len(m.recs)
    sig = dict(op=opdesc)
    try:
        nreal = pa.get_number_of_particles()
    except Exception as e:
        w.violate('exception-in-query', 'get_number_of_particles raised %r after %s' % (e, opdesc), **sig)
        return
    if set(pa.properties.keys()) != set(m.props):
        w.violate('property-set', 'array %d has properties %s, model %s after %s' % (
            ai, sorted(pa.properties.keys()), sorted(m.props), opdesc), **sig)
        return
    if nreal != n:
        w.violate('particle-count', 'array %d reports %d particles, model has %d after %s' % (ai, nreal, n, opdesc), **sig)
        return
    for p, (ctype, stride, default) in sorted(m.props.items()):
        arr = pa.properties[p]
        if arr.length != n * stride:
            w.violate('length-stride', 'array %d property %s holds %d values for %d particles with stride %d after %s'
                      % (ai, p, arr.length, n, stride, opdesc), prop_stride=stride, **sig)
            return
        if pa.stride.get(p, 1) != stride:
            w.violate('stride-bookkeeping', 'array %d property %s has recorded stride %r, the API was told %d after %s'
                      % (ai, p, pa.stride.get(p, 1), stride, opdesc), **sig)
            return
        if arr.get_c_type() != ctype:
            w.violate('property-type', 'array %d property %s has C type %s, expected %s after %s' % (
                ai, p, arr.get_c_type(), ctype, opdesc), **sig)
            return
        dv = pa.default_values.get(p)
        if dv is None or float(dv) != float(default):
            w.violate('default-value', 'array %d property %s has default %r, expected %r after %s' % (
                ai, p, dv, default, opdesc), **sig)
            return
    rr = real_records(pa)
    a = sorted(canon(r) for r in rr)
    b = sorted(canon(r) for r in m.recs)
    if a != b:
        from collections import Counter
        ca, cb = Counter(a), Counter(b)
        extra = list((ca - cb).elements())[:2]
        missing = list((cb - ca).elements())[:2]
        w.violate('records-differ', 'array %d after %s: records only in the real array %r; only in the model %r'
                  % (ai, opdesc, extra, missing), **sig)
        return
    # constants
    if set(pa.constants.keys()) != set(m.consts):
        w.violate('constants', 'array %d has constants %s, model %s after %s' % (
            ai, sorted(pa.constants.keys()), sorted(m.consts), opdesc), **sig)
        return
    for c, vals in m.consts.items():
        got = pa.constants[c].get_npy_array().tolist()
        if [float(x) for x in got] != [float(x) for x in vals]:
            w.violate('constants', 'array %d constant %s is %r, expected %r after %s' % (ai, c, got, vals, opdesc), **sig)
            return
    if m.aligned:
        tags = [r['tag'][0] for r in rr]
        nloc = sum(1 for x in tags if x == 0)
        if any(x != 0 for x in tags):
            w.probe('nonlocal_tags_at_align')
        if pa.num_real_particles != nloc:
            w.violate('num-real-particles', 'array %d num_real_particles=%d but %d particles are Local after %s'
                      % (ai, pa.num_real_particles, nloc, opdesc), **sig)
            return
        if any(x != 0 for x in tags[:nloc]):
            w.violate('alignment', 'array %d: Local particles do not occupy the first %d slots after %s: tags %r'
                      % (ai, nloc, opdesc, tags[:20]), **sig)
            return
        # attribute access returns the real particles only
        for p, (ctype, stride, default) in m.props.items():
            got = getattr(pa, p)
            if len(got) != nloc * stride:
                w.violate('real-slice', 'array %d: attribute %s returns %d values for %d real particles with stride %d after %s'
                          % (ai, p, len(got), nloc, stride, opdesc), **sig)
                return
    if m.out is not None and sorted(pa.output_property_arrays) != sorted(m.out):
        w.violate('output-arrays', 'array %d output list %r, expected %r after %s' % (
            ai, sorted(pa.output_property_arrays), sorted(m.out), opdesc), **sig)


def build_array(w, spec, ai):
    from pysph.base.particle_array import ParticleArray
    from pysph.base import utils as U
    n = int(spec.get('n', 0))
    if n < 0 or n > 200:
        raise InvalidScenario('n')
    dtag = int(spec.get('default_tag', 0)) % 3
    how = spec.get('how', 'ctor')
    m = MArr('a%d' % ai, dtag if how != 'utils' else 0)
    props = []
    seen = set()
    for e in spec.get('props', []):
        try:
            p, ctype, stride, default = e[0], e[1], int(e[2]), e[3]
        except Exception:
            raise InvalidScenario('props')
        if p not in POOL or p in seen or (ctype, stride) not in POOL[p]:
            continue
        seen.add(p)
        if ctype == 'unsigned int':
            default = abs(int(default))
        props.append((p, ctype, stride, default))
    if how == 'utils':
        # the helper adds its default double properties; extras must be double, stride 1
        props = [(p, 'double', 1, 0) for p, c, s, d in props if (('double', 1) in POOL[p])]
    for p, ctype, stride, default in props:
        m.props[p] = (ctype, stride, default)
    ids = w.new_ids(n)
    tags = spec.get('tags')
    if not (isinstance(tags, list) and len(tags) == n):
        tags = None
    consts = {}
    for e in spec.get('consts', []):
        try:
            consts[str(e[0])] = [float(x) for x in e[1]]
        except Exception:
            raise InvalidScenario('consts')
    if how == 'utils':
        for p in U.DEFAULT_PROPS:
            if p not in m.props:
                m.props[p] = ('double', 1, 0)
    m.recs = [rec_for(m, i, 0, (int(tags[k]) % 3) if tags else None) for k, i in enumerate(ids)]
    m.consts = dict(consts)
    kw = {}
    if how == 'ctor':
        for p, (ctype, stride, default) in m.props.items():
            if p in ('pid',):
                continue
            d = dict(type=ctype, default=default, stride=stride)
            if n > 0:
                d['data'] = flat(m.recs, p, ctype)
            kw[p] = d
        pa = ParticleArray(name=m.name, default_particle_tag=dtag, constants={k: list(v) for k, v in consts.items()}, **kw)
        if n == 0:
            # without data the constructor leaves every property empty
            pass
        m.aligned = True
    elif how == 'utils':
        if n > 0:
            for p in m.props:
                if p == 'pid':
                    continue
                kw[p] = flat(m.recs, p, m.props[p][0])
        extras = [p for p in m.props if p not in U.DEFAULT_PROPS]
        pa = U.get_particle_array(name=m.name, additional_props=extras or None,
                                  constants={k: list(v) for k, v in consts.items()} or None, **kw)
        if n == 0:
            pass
        m.out = ['x', 'y', 'z', 'u', 'v', 'w', 'rho', 'm', 'h', 'pid', 'gid', 'tag']
        m.aligned = True
    else:
        pa = ParticleArray(name=m.name, default_particle_tag=dtag)
        order = sorted(p for p in m.props if p not in ('pid',))
        # the order in which properties (some strided) are declared is part of the history
        rot = int(spec.get('order', 0)) % max(1, len(order))
        order = order[rot:] + order[:rot]
        if spec.get('declare_first'):
            # declare everything without data first, then give the data
            for p in order:
                ctype, stride, default = m.props[p]
                pa.add_property(p, type=ctype, default=default, stride=stride)
        for p in order:
            ctype, stride, default = m.props[p]
            if n > 0:
                pa.add_property(p, type=ctype, default=default, data=flat(m.recs, p, ctype), stride=stride)
            else:
                pa.add_property(p, type=ctype, default=default, stride=stride)
        for c, v in consts.items():
            pa.add_constant(c, list(v))
        pa.align_particles()
        m.aligned = True
    if m.out is None:
        m.out = []
    return pa, m


def pick(seq, k):
    return seq[k % len(seq)] if seq else None


def apply_op(w, op):
    from cyarray.api import LongArray
    from pysph.base.particle_array import ParticleArray
    k = op.get('op')
    na = len(w.real)
    ai = int(op.get('a', 0)) % na
    bi = int(op.get('b', 0)) % na
    pa, m = w.real[ai], w.model[ai]
    n = len(m.recs)
    idx = [int(x) for x in op.get('idx', []) if isinstance(x, int)]
    salt = int(op.get('salt', 1)) % 50
    flag = bool(op.get('flag'))
    flag2 = bool(op.get('flag2'))
    name = op.get('name') if op.get('name') in POOL else 'x'
    touched = [ai]
    desc = k
    if n == 0:
        w.probe('op_on_empty_array')
    if k == 'add_particles':
        cnt = int(op.get('n', 1)) % 9
        if cnt == 0:
            return None
        sub = op.get('subset', [])
        given = [p for j, p in enumerate(NAMES) if p in m.props and j < len(sub) and sub[j]]
        if flag2 and 'tag' not in given:
            given.append('tag')
        if not given:
            given = [sorted(m.props)[0]]
        ids = w.new_ids(cnt)
        tagv = int(op.get('tag', 0)) % 3
        full = [rec_for(m, i, 0, tagv) for i in ids]
        new = []
        for r in full:
            d = m.default_rec()
            for p in given:
                d[p] = r[p]
            new.append(d)
        kw = {p: flat(new, p, m.props[p][0]) for p in given}
        pa.add_particles(align=flag, **kw)
        m.recs.extend(new)
        m.aligned = flag
        desc = 'add_particles(%d, props=%s, align=%s)' % (cnt, given, flag)
    elif k == 'remove_particles':
        if n == 0:
            return None
        ii = []
        for i in idx:
            if i % n not in ii:
                ii.append(i % n)        # distinct indices in the order drawn (any order is accepted by the method)
        if not ii:
            return None
        rr = real_records(pa)
        gone = [canon(rr[i]) for i in ii]
        how = int(op.get('variant', 0)) % 3
        if ii != sorted(ii):
            w.probe('remove_unsorted_indices')
        arg = list(ii) if how == 0 else (np.array(ii) if how == 1 else _long(ii))
        # any truthy / falsy value is a legal flag
        salt_ = int(op.get('salt', 0)) % 3
        al = flag if salt_ == 0 else (int(flag) if salt_ == 1 else np.bool_(flag))
        if salt_ and flag:
            w.probe('truthy_flag_not_the_True_object')
        pa.remove_particles(arg, align=al)
        _remove(w, m, gone)
        if len(ii) == n:
            w.probe('remove_all')
        if flag:
            m.aligned = True
        else:
            m.aligned = False
        desc = 'remove_particles(%s, align=%s)' % (ii, flag)
    elif k == 'remove_tagged':
        tagv = int(op.get('tag', 0)) % 3
        before = len(m.recs)
        pa.remove_tagged_particles(tagv, align=flag)
        m.recs = [r for r in m.recs if r['tag'][0] != tagv]
        if len(m.recs) != before:
            m.aligned = flag
        desc = 'remove_tagged_particles(%d, align=%s)' % (tagv, flag)
    elif k == 'extract':
        if n == 0:
            ii = []
        else:
            ii = [i % n for i in idx]
        if len(set(ii)) < len(ii):
            w.probe('extract_duplicate_indices')
        sub = op.get('subset', [])
        props = None
        if flag2:
            props = [p for j, p in enumerate(NAMES) if p in m.props and j < len(sub) and sub[j]]
            if not props:
                props = None
        rr = real_records(pa)
        into = (int(op.get('variant', 0)) % 2 == 1) and bi != ai
        if into:
            pb, mb = w.real[bi], w.model[bi]
            use = props if props is not None else sorted(m.props)
            # destination must have the properties with the same type/stride
            for p in use:
                if p in mb.props and mb.props[p][:2] != m.props[p][:2]:
                    return None
            pb.ensure_properties(pa, list(use))
            for p in use:
                if p not in mb.props:
                    mb.props[p] = m.props[p]
                    for r in mb.recs:
                        r[p] = (m.props[p][2],) * m.props[p][1]
            if mb.recs:
                w.probe('extract_into_nonempty')
            al = int(op.get('tag', 0)) % 3 != 1
            res = pa.extract_particles(_long(ii) if flag else list(ii), dest_array=pb, align=al, props=props)
            if res is not pb:
                w.violate('extract-return', 'extract_particles did not return the destination it was given')
            for i in ii:
                d = mb.default_rec()
                for p in use:
                    d[p] = rr[i][p]
                mb.recs.append(d)
            if ii:
                mb.aligned = True if al else False
            touched = [ai, bi]
            desc = 'extract_particles(%s, dest=array %d, props=%s)' % (ii, bi, props)
        else:
            al = int(op.get('tag', 0)) % 3 != 1
            res = pa.extract_particles(np.array(ii, dtype=int) if flag else list(ii), align=al, props=props)
            mr = MArr(m.name, 0)
            use = props if props is not None else sorted(m.props)
            for p in use:
                mr.props[p] = m.props[p]
            if props is None:
                mr.props['tag'] = ('int', 1, m.props['tag'][2])
            mr.consts = {c: list(v) for c, v in m.consts.items()}
            for i in ii:
                d = mr.default_rec()
                for p in use:
                    d[p] = rr[i][p]
                mr.recs.append(d)
            mr.out = None if m.out is None else [p for p in m.out if props is None or p in props]
            mr.aligned = bool(al) or not ii
            # the result replaces array bi (or is appended when there is room)
            if na < 3:
                w.real.append(res)
                w.model.append(mr)
                touched = [ai, na]
            else:
                tgt = bi if bi != ai else (ai + 1) % na
                w.real[tgt] = res
                w.model[tgt] = mr
                touched = [ai, tgt]
            desc = 'extract_particles(%s, props=%s) -> new array' % (ii, props)
    elif k == 'append':
        if bi == ai:
            return None
        pb, mb = w.real[bi], w.model[bi]
        for p in mb.props:
            if p in m.props and m.props[p][:2] != mb.props[p][:2]:
                return None
        if set(mb.props) != set(m.props):
            w.probe('append_differing_props')
        if flag2:
            w.probe('append_update_constants')
        pa.append_parray(pb, align=flag, update_constants=flag2)
        if mb.recs:
            for p in mb.props:
                if p not in m.props:
                    m.props[p] = mb.props[p]
                    for r in m.recs:
                        r[p] = (mb.props[p][2],) * mb.props[p][1]
            for rb in mb.recs:
                d = m.default_rec()
                for p in mb.props:
                    d[p] = rb[p]
                m.recs.append(d)
            m.aligned = flag
            if flag2:
                for c, v in mb.consts.items():
                    if c not in m.consts:
                        m.consts[c] = list(v)
                        w.shared_consts = getattr(w, 'shared_consts', set()) | {(ai, c), (bi, c)}
        desc = 'append_parray(array %d, align=%s, update_constants=%s)' % (bi, flag, flag2)
    elif k == 'extend':
        cnt = int(op.get('n', 1)) % 9
        pa.extend(cnt)
        if cnt > 0:
            for _ in range(cnt):
                m.recs.append(m.default_rec())
            m.aligned = False
            if flag:
                pa.align_particles()
                m.aligned = True
        desc = 'extend(%d)%s' % (cnt, '+align_particles()' if flag and cnt else '')
    elif k == 'resize':
        if n == 0:
            return None
        newn = n - 1 - (int(op.get('n', 0)) % n)
        rr = real_records(pa)
        gone = [canon(r) for r in rr[newn:]]
        pa.resize(newn)
        pa.align_particles()
        _remove(w, m, gone)
        m.aligned = True
        desc = 'resize(%d)+align_particles()' % newn
    elif k == 'add_property':
        variants = POOL[name]
        ctype, stride = variants[int(op.get('variant', 0)) % len(variants)]
        if name in m.props:
            # declaring a property that exists already (no data, no stride, no default) changes nothing
            pa.add_property(name)
            w.probe('redeclared_existing_property')
            if m.props[name][1] > 1:
                w.probe('redeclared_existing_strided_property')
            w.kinds.append(k)
            return 'add_property(%s) for a property that exists' % name, touched
        default = op.get('default', 0)
        default = abs(int(default)) if ctype == 'unsigned int' else int(default)
        old = w.removed.get((ai, name))
        if old is not None and old != stride:
            w.probe('readd_removed_other_stride')
        with_data = flag and n > 0
        if flag and n == 0:
            # data given to an empty array creates the particles
            cnt = 1 + int(op.get('n', 0)) % 5
            ids = w.new_ids(cnt)
            vals = [tuple(cast(ctype, val(i, name, j, salt)) for j in range(stride)) for i in ids]
            arr = np.asarray([v for tup in vals for v in tup], dtype=NPT[ctype])
            pa.add_property(name, type=ctype, default=default, data=arr, stride=stride)
            m.props[name] = (ctype, stride, default)
            for tup in vals:
                r = m.default_rec()
                r[name] = tup
                m.recs.append(r)
            m.aligned = False
            w.probe('add_property_fills_empty_array')
            if any(st > 1 for p_, (ct, st, df) in m.props.items() if p_ != name):
                w.probe('fill_empty_array_with_strided_props_declared')
            desc = 'add_property(%s, type=%s, stride=%d, data for %d particles) on an empty array' % (name, ctype, stride, cnt)
            w.kinds.append(k)
            return desc, touched
        if with_data:
            rr = real_records(pa)
            data = []
            for r in rr:
                ident = r['ident'][0] if 'ident' in r else 0
                data.extend(cast(ctype, val(ident, name, j, salt)) for j in range(stride))
            arr = np.asarray(data, dtype=NPT[ctype])
            pa.add_property(name, type=ctype, default=default, data=arr, stride=stride)
            # model: the records as they were, each with the values it was given
            m.props[name] = (ctype, stride, default)
            m.recs = []
            for r in rr:
                ident = r['ident'][0] if 'ident' in r else 0
                r2 = dict(r)
                r2[name] = tuple(cast(ctype, val(ident, name, j, salt)) for j in range(stride))
                m.recs.append(r2)
        else:
            pa.add_property(name, type=ctype, default=default, stride=stride)
            m.props[name] = (ctype, stride, default)
            for r in m.recs:
                r[name] = (default,) * stride
        desc = 'add_property(%s, type=%s, stride=%d, default=%r, data=%s)' % (name, ctype, stride, default, with_data)
    elif k == 'remove_property':
        if name not in m.props:
            return None
        w.removed[(ai, name)] = m.props[name][1]
        pa.remove_property(name)
        del m.props[name]
        for r in m.recs:
            del r[name]
        if m.out is not None and name in m.out:
            m.out.remove(name)
        desc = 'remove_property(%s)' % name
    elif k == 'add_constant':
        c = CONST_NAMES[int(op.get('variant', 0)) % len(CONST_NAMES)]
        if c in m.consts or c in m.props:
            return None
        vals = [float(salt + j) for j in range(1 + int(op.get('n', 0)) % 4)]
        pa.add_constant(c, vals if flag else np.array(vals))
        m.consts[c] = vals
        desc = 'add_constant(%s, %r)' % (c, vals)
    elif k == 'retag':
        if n == 0:
            return None
        ii = sorted(set(i % n for i in idx))
        if not ii:
            return None
        tagv = int(op.get('tag', 0)) % 3
        rr = real_records(pa)
        gone = [canon(rr[i]) for i in ii]
        tarr = pa.get('tag', only_real_particles=False)
        for i in ii:
            tarr[i] = tagv
        pa.align_particles()
        _remove(w, m, gone)
        for i in ii:
            r = dict(rr[i])
            r['tag'] = (tagv,)
            m.recs.append(r)
        m.aligned = True
        desc = 'tag[%s]=%d; align_particles()' % (ii, tagv)
    elif k == 'set_tag':
        if n == 0:
            return None
        ii = sorted(set(i % n for i in idx))
        if not ii:
            return None
        tagv = int(op.get('tag', 0)) % 3
        rr = real_records(pa)
        gone = [canon(rr[i]) for i in ii]
        w.probe('set_tag_called')
        try:
            pa.set_tag(tagv, _long(ii))
        except TypeError as e:
            w.violate('set_tag-raises', 'set_tag(%d, LongArray(%s)) raised %r' % (tagv, ii, e), op='set_tag')
            return None
        pa.align_particles()
        _remove(w, m, gone)
        for i in ii:
            r = dict(rr[i])
            r['tag'] = (tagv,)
            m.recs.append(r)
        m.aligned = True
        desc = 'set_tag(%d, %s); align_particles()' % (tagv, ii)
    elif k == 'set':
        if name not in m.props:
            return None
        ctype, stride, default = m.props[name]
        rr = real_records(pa)
        data = []
        for r in rr:
            ident = r['ident'][0] if 'ident' in r else 0
            data.extend(cast(ctype, val(ident, name, j, salt)) for j in range(stride))
        arr = np.asarray(data, dtype=NPT[ctype])
        if n == 0:
            return None
        if flag:
            pa.set(**{name: arr})
        else:
            pa.get_carray(name).get_npy_array()[:] = arr
        gone = [canon(r) for r in rr]
        _remove(w, m, gone)
        for r in rr:
            r2 = dict(r)
            ident = r['ident'][0] if 'ident' in r else 0
            r2[name] = tuple(cast(ctype, val(ident, name, j, salt)) for j in range(stride))
            m.recs.append(r2)
        desc = 'set(%s=...)' % name
    elif k == 'set_const':
        cs = sorted(m.consts)
        if not cs:
            return None
        c = cs[int(op.get('variant', 0)) % len(cs)]
        vals = [float(salt * 3 + j) for j in range(len(m.consts[c]))]
        pa.set(**{c: np.array(vals)})
        m.consts[c] = vals
        for (aj, cj) in getattr(w, 'shared_consts', set()):
            pass
        touched = list(range(len(w.real)))
        desc = 'set(constant %s=%r)' % (c, vals)
    elif k == 'copy_properties':
        if bi == ai:
            return None
        pb, mb = w.real[bi], w.model[bi]
        nb = len(mb.recs)
        if nb == 0 or nb > n:
            return None
        common = [p for p in mb.props if p in m.props]
        for p in common:
            if m.props[p][:2] != mb.props[p][:2]:
                return None
        start = (idx[0] if idx else 0) % (n - nb + 1)
        ra = real_records(pa)
        rb = real_records(pb)
        form = int(op.get('variant', 0)) % 3
        ncopy = nb
        if form == 2 and nb == n:
            # both indices omitted: the arrays have the same length, everything is copied
            start = 0
            pa.copy_properties(pb)
            desc = 'copy_properties(array %d)' % bi
            w.probe('copy_properties_open_ended')
        elif form == 1:
            # end index omitted: from start_index to the end of self, as many values as that takes from the source
            start = n - 1 - ((idx[0] if idx else 0) % nb)
            ncopy = n - start
            pa.copy_properties(pb, start) if (idx[0] if idx else 0) % 2 else pa.copy_properties(pb, start_index=start)
            desc = 'copy_properties(array %d, start_index=%d)' % (bi, start)
            w.probe('copy_properties_open_ended')
        else:
            pa.copy_properties(pb, start, start + nb)
            desc = 'copy_properties(array %d, %d, %d)' % (bi, start, start + nb)
        gone = [canon(r) for r in ra[start:start + ncopy]]
        _remove(w, m, gone)
        for j in range(ncopy):
            r = dict(ra[start + j])
            for p in common:
                r[p] = rb[j][p]
            m.recs.append(r)
        m.aligned = False if 'tag' in common else m.aligned
    elif k == 'copy_over':
        name2 = op.get('name2') if op.get('name2') in POOL else 'y'
        if name not in m.props or name2 not in m.props or name == name2:
            return None
        if m.props[name][0] != 'double' or m.props[name2][:2] != m.props[name][:2]:
            return None
        rr = real_records(pa)
        pa.copy_over_properties({name: name2})
        m.recs = []
        for r in rr:
            r2 = dict(r)
            r2[name2] = r[name]
            m.recs.append(r2)
        desc = 'copy_over_properties({%s: %s})' % (name, name2)
    elif k == 'set_to_zero':
        names = [p for p in sorted(m.props) if m.props[p][0] == 'double' and p in POOL]
        sub = op.get('subset', [])
        names = [p for j, p in enumerate(names) if j < len(sub) and sub[j]]
        if not names:
            return None
        pa.set_to_zero(list(names))
        for r in m.recs:
            for p in names:
                r[p] = (0.0,) * m.props[p][1]
        desc = 'set_to_zero(%s)' % names
    elif k == 'empty_clone':
        sub = op.get('subset', [])
        props = None
        if flag:
            props = [p for j, p in enumerate(NAMES) if p in m.props and j < len(sub) and sub[j]] or None
        res = pa.empty_clone(props=props)
        mr = MArr(m.name, 0)
        use = props if props is not None else sorted(m.props)
        for p in use:
            mr.props[p] = m.props[p]
        if props is None:
            mr.props['tag'] = ('int', 1, m.props['tag'][2])
        mr.consts = {c: list(v) for c, v in m.consts.items()}
        mr.out = None if m.out is None else [p for p in m.out if props is None or p in props]
        tgt = bi if bi != ai else None
        if na < 3:
            w.real.append(res)
            w.model.append(mr)
            touched = [ai, na]
        elif tgt is not None:
            w.real[tgt] = res
            w.model[tgt] = mr
            touched = [ai, tgt]
        else:
            return None
        desc = 'empty_clone(props=%s)' % (props,)
    elif k == 'info_replicas':
        # empty replicas of all arrays from their recorded information (what a restart or a parallel run does)
        from pysph.base.utils import get_particles_info, create_dummy_particles
        if len(set(x.name for x in w.real)) != len(w.real):
            return None
        reps = create_dummy_particles(get_particles_info(w.real))
        for j, (rp, mm) in enumerate(zip(reps, w.model)):
            if rp.name != w.real[j].name or rp.get_number_of_particles() != 0:
                w.violate('replica', 'replica %d is %r with %d particles' % (j, rp.name, rp.get_number_of_particles()), op='info_replicas')
                break
            got = {p: (rp.properties[p].get_c_type(), rp.stride.get(p, 1), rp.default_values[p]) for p in rp.properties}
            want = {p: (v[0], v[1], v[2]) for p, v in mm.props.items()}
            if got != want:
                bad = sorted(p for p in set(got) | set(want) if got.get(p) != want.get(p))[:3]
                w.violate('replica', 'the empty replica of array %d declares %r, the array has %r' % (
                    j, {p: got.get(p) for p in bad}, {p: want.get(p) for p in bad}), op='info_replicas')
                break
        w.probe('replicas_from_particles_info')
        w.kinds.append(k)
        return 'create_dummy_particles(get_particles_info(all arrays))', touched
    elif k == 'ensure_properties':
        if bi == ai:
            return None
        pb, mb = w.real[bi], w.model[bi]
        sub = op.get('subset', [])
        props = None
        if flag:
            props = [p for j, p in enumerate(NAMES) if p in mb.props and j < len(sub) and sub[j]] or None
        pa.ensure_properties(pb, props)
        for p in (props if props else sorted(mb.props)):
            if p not in m.props:
                m.props[p] = mb.props[p]
                for r in m.recs:
                    r[p] = (mb.props[p][2],) * mb.props[p][1]
        desc = 'ensure_properties(array %d, %s)' % (bi, props)
    elif k == 'output_arrays':
        sub = op.get('subset', [])
        props = [p for j, p in enumerate(NAMES) if p in m.props and j < len(sub) and sub[j]]
        if flag:
            pa.set_output_arrays(list(props))
            m.out = list(props)
        else:
            pa.add_output_arrays(list(props))
            m.out = None if m.out is None else sorted(set(m.out + props))
        desc = '%s_output_arrays(%s)' % ('set' if flag else 'add', props)
    elif k == 'get_property_arrays':
        if not m.aligned:
            return None
        d = pa.get_property_arrays(all=flag, only_real=flag2)
        want = sorted(m.props) if (flag or m.out == []) else (None if m.out is None else sorted(m.out))
        if want is not None and sorted(d) != want:
            w.violate('get-property-arrays', 'get_property_arrays(all=%s) returned %s, expected %s' % (flag, sorted(d), want))
        cnt = sum(1 for r in m.recs if r['tag'][0] == 0) if flag2 else n
        for p, a in d.items():
            if p in m.props and len(a) != cnt * m.props[p][1]:
                w.violate('get-property-arrays', 'get_property_arrays(only_real=%s)[%s] has %d values for %d particles, stride %d'
                          % (flag2, p, len(a), cnt, m.props[p][1]))
        desc = 'get_property_arrays(all=%s, only_real=%s)' % (flag, flag2)
    elif k == 'pickle':
        if any(s > 1 for (_, s, _) in m.props.values()):
            w.probe('pickle_strided')
        res = pickle.loads(pickle.dumps(pa))
        w.real[ai] = res
        m.out = None        # the output list is not part of the pickled state
        m.aligned = m.aligned
        desc = 'pickle round trip'
    elif k == 'deepcopy':
        res = copy.deepcopy(pa)
        w.real[ai] = res
        m.out = None
        desc = 'copy.deepcopy'
    elif k == 'align':
        pa.align_particles()
        m.aligned = True
        desc = 'align_particles()'
    elif k == 'clear':
        pa.clear()
        w.probe('clear_then_reuse')
        dt = m.props['tag'][2]
        m.props = {'tag': ('int', 1, dt), 'pid': ('int', 1, 0), 'gid': ('unsigned int', 1, UINT_MAX)}
        m.recs = []
        m.out = None
        m.aligned = False
        desc = 'clear()'
    else:
        return None
    w.kinds.append(k)
    return desc, touched


def _long(ii):
    from cyarray.api import LongArray
    a = LongArray(len(ii))
    a.set_data(np.asarray(ii, dtype=np.int64))
    return a


def _remove(w, m, gone):
    pool = {}
    for i, r in enumerate(m.recs):
        pool.setdefault(canon(r), []).append(i)
    kill = set()
    for g in gone:
        lst = pool.get(g)
        if lst:
            kill.add(lst.pop())
        # a record not in the model was already reported by compare()
    m.recs = [r for i, r in enumerate(m.recs) if i not in kill]


def sig_of(sc):
    return {}


def execute(sc, prop):
    specs = sc.get('arrays')
    ops = sc.get('ops', [])
    if not isinstance(specs, list) or not specs or len(specs) > 3 or not isinstance(ops, list):
        raise InvalidScenario('arrays/ops')
    w = World()
    for ai, spec in enumerate(specs):
        if not isinstance(spec, dict):
            raise InvalidScenario('spec')
        try:
            pa, m = build_array(w, spec, ai)
        except InvalidScenario:
            raise
        except Exception as e:
            import traceback
            if traceback.extract_tb(e.__traceback__)[-1].filename.endswith('e_pa.py'):
                raise
            w.violate('operation-raised', 'construction (%s) raised %r\n%s' % (spec.get('how'), e, traceback.format_exc()[-600:]),
                      op='construction', exc=type(e).__name__)
            return dict(violations=w.viol, digest=0, nontrivial=False, faults={}, probes=w.probes, sim=0.0, inconclusive=False)
        w.real.append(pa)
        w.model.append(m)
    for ai in range(len(w.real)):
        compare(w, ai, 'construction (%s)' % specs[ai].get('how'))
    nexec = 0
    if not w.viol:
        for op in ops[:60]:
            if not isinstance(op, dict):
                continue
            try:
                r = apply_op(w, op)
            except InvalidScenario:
                raise
            except Exception as e:
                import traceback
                if traceback.extract_tb(e.__traceback__)[-1].filename.endswith('e_pa.py'):
                    raise       # a bug of this harness, not of the library
                w.violate('operation-raised', '%s raised %r\n%s' % (op.get('op'), e, traceback.format_exc()[-600:]),
                          op=op.get('op'), exc=type(e).__name__)
                break
            if r is None:
                if w.viol:
                    break
                continue
            desc, touched = r
            nexec += 1
            for ai in range(len(w.real)):
                compare(w, ai, desc)
            if w.viol:
                break
    shapes = [(len(m.recs), sorted((p, v[1]) for p, v in m.props.items())) for m in w.model]
    return dict(violations=w.viol, digest=digest(repr((w.kinds, shapes))), nontrivial=nexec >= 3,
                faults={}, probes=w.probes, sim=float(nexec), inconclusive=False)
