#!/bin/sh
# tools/try_mutation.sh <patch.diff> <PROP> [check args...]: apply a seeded change to /repo (or to the scratch
# worktree named by TRY_REPO, so that /repo stays free), run the check, and always undo it.
P=$1; shift
PROP=$1; shift
R=${TRY_REPO:-/repo}
cd "$R" || exit 2
if [ -n "$(git status --porcelain --untracked-files=no)" ]; then echo "repo not clean"; exit 2; fi
git apply "$P" || { echo "patch does not apply"; exit 2; }
cd /verif
O=/tmp/try_mut_$$.out
VERIF_REPO=$R VERIF_NO_EVIDENCE=1 ./check "$PROP" "$@" > $O 2>&1
RC=$?
git -C "$R" checkout -- .
grep -E "^(VIOLATION|HARNESS|violation of|runs=)" $O | cut -c1-300
rm -f $O
echo "exit=$RC"
