#!/bin/sh
# tools/confirm_mutation.sh <worktree> <mutation dir> [extra test paths...]
# confirms: demo passes on clean tree, fails with the patch; baseline tests pass with the patch.
WT=$1; M=$2; shift; shift
cd "$WT" || exit 2
git checkout -q -- . 
RUN="env PYTHONPATH=$WT HOME=$WT/.home /venv/bin/python"
NEEDS_BUILD=0
if grep -qE '^\+\+\+ b/.*\.(pyx|pxd|mako|h)$' "$M/patch.diff"; then NEEDS_BUILD=1; fi
timeout 600 $RUN "$M/demo.py" > /tmp/cm_clean.out 2>&1; C=$?
git apply "$M/patch.diff" || { echo "patch does not apply"; exit 2; }
if [ $NEEDS_BUILD = 1 ]; then /venv/bin/python setup.py build_ext --inplace -j16 > /tmp/cm_build.out 2>&1 || echo "BUILD FAILED"; fi
timeout 600 $RUN "$M/demo.py" > /tmp/cm_mut.out 2>&1; R=$?
BASE="pysph/base/tests/test_reduce_array.py pysph/examples/tests/test_riemann_solver.py pysph/sph/tests/test_equations.py pysph/sph/tests/test_linalg.py pysph/sph/tests/test_riemann_solver.py"
timeout 3000 $RUN -m pytest -q -p no:cacheprovider -x $BASE "$@" > /tmp/cm_tests.out 2>&1; T=$?
git checkout -q -- .
if [ $NEEDS_BUILD = 1 ]; then /venv/bin/python setup.py build_ext --inplace -j16 > /tmp/cm_build2.out 2>&1; fi
echo "demo clean exit=$C (want 0); demo mutated exit=$R (want 1); tests exit=$T (want 0): $(tail -1 /tmp/cm_tests.out)"
tail -2 /tmp/cm_mut.out
