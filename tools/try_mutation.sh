#!/bin/sh
# tools/try_mutation.sh <patch.diff> <PROP> [check args...]: apply a seeded change to /repo,
# run the check, and always undo it.
P=$1; shift
PROP=$1; shift
cd /repo || exit 2
if [ -n "$(git status --porcelain --untracked-files=no)" ]; then echo "repo not clean"; exit 2; fi
git apply "$P" || { echo "patch does not apply"; exit 2; }
cd /verif
VERIF_NO_EVIDENCE=1 ./check "$PROP" "$@" > /tmp/try_mut.out 2>&1
RC=$?
git -C /repo checkout -- .
grep -E "^(VIOLATION|HARNESS|violation of|runs=)" /tmp/try_mut.out | cut -c1-300
echo "exit=$RC"
