"""Seeded choice tape: one integer decides everything.

Engines never call random / numpy.random / time / os.urandom; they draw from a
Tape.  Generation is a pure function of the seed.  What a run actually is gets
written down as an explicit *scenario* (JSON) by the engine, and replay executes
the scenario, so replay files stay valid when a generator changes.
"""
import hashlib
import random


def derive_seed(master, prop, index):
    h = hashlib.sha256(('%s|%s|%d' % (master, prop, index)).encode()).digest()
    return int.from_bytes(h[:8], 'big')


class Tape(object):
    def __init__(self, seed):
        self.seed = seed
        self.rng = random.Random(seed)
        self.n = 0

    # every draw goes through _r so that the count of draws is known
    def int(self, lo, hi, label=None):
        self.n += 1
        if hi <= lo:
            return lo
        return self.rng.randint(lo, hi)

    def bool(self, p=0.5, label=None):
        self.n += 1
        return self.rng.random() < p

    def choice(self, seq, label=None):
        self.n += 1
        return seq[self.rng.randrange(len(seq))]

    def wchoice(self, pairs, label=None):
        """pairs: [(item, weight), ...]"""
        self.n += 1
        tot = sum(w for _, w in pairs)
        x = self.rng.random() * tot
        for it, w in pairs:
            x -= w
            if x < 0:
                return it
        return pairs[-1][0]

    def sample(self, seq, k, label=None):
        self.n += 1
        seq = list(seq)
        k = min(k, len(seq))
        return self.rng.sample(seq, k)

    def shuffle(self, seq):
        self.n += 1
        seq = list(seq)
        self.rng.shuffle(seq)
        return seq

    def subset(self, seq, p=0.5):
        return [x for x in seq if self.bool(p)]

    def unit(self):
        """uniform in [0,1) on a 2**-20 grid (exact text)."""
        self.n += 1
        return self.rng.randrange(1 << 20) / float(1 << 20)

    def grid(self, lo, hi, steps=1 << 16):
        """a float on an explicit finite grid between lo and hi."""
        self.n += 1
        k = self.rng.randrange(steps + 1)
        return lo + (hi - lo) * (k / float(steps))

    def fork(self, label):
        """an independent sub-tape (so that adding draws in one part of a
        generator does not shift every later part)."""
        h = hashlib.sha256(('%d|%s' % (self.seed, label)).encode()).digest()
        return Tape(int.from_bytes(h[:8], 'big'))


def digest(obj):
    """stable 64-bit digest of a JSON-like object / string."""
    if not isinstance(obj, (bytes, str)):
        import json
        obj = json.dumps(obj, sort_keys=True, default=str)
    if isinstance(obj, str):
        obj = obj.encode()
    return int.from_bytes(hashlib.blake2b(obj, digest_size=8).digest(), 'big')
