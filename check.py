#!/venv/bin/python
"""./check <PROPERTY> [--tier quick|thorough] [--replay FILE] [--determinism N]
exit 0 = held on everything explored, 1 = VIOLATION line printed, 2 = harness error."""
import argparse
import importlib
import os
import sys

HERE = os.path.dirname(os.path.abspath(__file__))
sys.path.insert(0, HERE)

ENGINE_OF = {
    'C18': 'engines.e_thr',
    'C10': 'engines.e_solve',
    'C06': 'engines.e_pa',
    'C01': 'engines.e_nnps',
    'C17': 'engines.e_nnps',
    'C07': 'engines.e_dom',
    'C16': 'engines.e_io',
    'C05': 'engines.e_omp',
    'C14': 'engines.e_interp',
    'C03': 'engines.e_group',
    'C04': 'engines.e_integ',
}


def main():
    ap = argparse.ArgumentParser()
    ap.add_argument('prop', nargs='?')
    ap.add_argument('--warm', action='store_true')
    ap.add_argument('--tier', default=os.environ.get('VERIF_TIER', 'quick'))
    ap.add_argument('--replay')
    ap.add_argument('--runs', type=int)
    ap.add_argument('--budget', type=float)
    ap.add_argument('--digest-log', nargs=2, metavar=('N', 'FILE'))
    ap.add_argument('--determinism', type=int, metavar='N')
    a = ap.parse_args()
    if os.environ.get('PYTHONHASHSEED') is None:
        os.environ['PYTHONHASHSEED'] = '0'
        os.execv(sys.executable, [sys.executable] + sys.argv)
    os.environ.setdefault('VERIF_REAL_HOME', os.path.expanduser('~'))
    if a.warm:
        from vsim import build
        build.activate(verbose=True)
        for p in sorted(ENGINE_OF):
            eng = importlib.import_module(ENGINE_OF[p])
            eng.prepare(p, 'quick')
            print('warm: %s ready' % p, flush=True)
        return 0
    if not a.prop:
        ap.error('property id required')
    prop = a.prop.upper()
    if prop not in ENGINE_OF:
        print('HARNESS-ERROR unknown or unclaimed property %s' % prop)
        return 2
    from vsim import runner
    engine = importlib.import_module(ENGINE_OF[prop])
    master = int(os.environ.get('VERIF_SEED', '1'))
    tier = a.tier if a.tier in ('quick', 'thorough') else 'quick'
    try:
        if a.replay:
            engine.prepare(prop, tier)
            hit, vs = runner.replay_file(engine, prop, a.replay)
            if hit:
                print('VIOLATION property=%s replay=%s' % (prop, a.replay))
                return 1
            print('replay did not violate %s' % prop)
            return 0
        if a.digest_log:
            runner.digest_log(engine, prop, tier, master, int(a.digest_log[0]), a.digest_log[1])
            return 0
        if a.determinism:
            from vsim import selftest
            return selftest.determinism(prop, tier, master, a.determinism)
        return runner.run_check(engine, prop, tier, master, runs=a.runs, budget_s=a.budget)
    except Exception:
        import traceback
        print('HARNESS-ERROR ' + traceback.format_exc())
        return 2


if __name__ == '__main__':
    sys.exit(main())
