#!/venv/bin/python
"""tools/keep_mutation.py <mutation dir> <seeded id> <PROP> <needs> <ran> <caught-by>
copies patch.diff, demo.py, notes.md to /verif/seeded/<id>/ and writes meta.json"""
import json, os, shutil, sys
src, sid, prop, needs, ran, caught = sys.argv[1:7]
d = os.path.join('/verif/seeded', sid)
os.makedirs(d, exist_ok=True)
for f in ('patch.diff', 'demo.py', 'notes.md'):
    if os.path.exists(os.path.join(src, f)):
        shutil.copy(os.path.join(src, f), os.path.join(d, f))
json.dump(dict(id=sid, property=prop, breaks=prop, needs_to_manifest=needs, confirmed_by=ran,
               detected_by=caught, source='independent sub-agent given only the property text and a scratch worktree'),
          open(os.path.join(d, 'meta.json'), 'w'), indent=1)
print('kept', d)
