"""fresh-interpreter runner for E-OMP: reads a configuration (JSON) on stdin,
runs the Application and writes the pickled result to the file given as argv[1].
Used for the repeat relation (R3) under another PYTHONHASHSEED."""
import json
import os
import pickle
import sys

HERE = os.path.dirname(os.path.dirname(os.path.abspath(__file__)))
sys.path.insert(0, HERE)

if __name__ == '__main__':
    cfg = json.load(sys.stdin)
    from vsim import build
    build.activate()
    from engines import e_omp
    try:
        res = ('ok', e_omp._child_run(cfg))
    except Exception:
        import traceback
        res = ('error', traceback.format_exc())
    with open(sys.argv[1], 'wb') as f:
        pickle.dump(res, f, protocol=4)
