#!/bin/sh
# tools/check_fixed_replays.sh: every finding recorded as fixed must fail from its stored replay on the commit before its fix
# and pass on /repo's HEAD.  Uses scratch worktrees under /tmp (removed afterwards).
cd /verif || exit 2
rc=0
/venv/bin/python - <<'PY' > /tmp/fixed_list.txt
import json
for e in json.load(open('/verif/known_findings.json'))['findings']:
    if e['status'] == 'fixed':
        print(e['property'], e['id'], e['commit'], e['replay'])
PY
last=""
while read prop id commit replay; do
  if [ "$commit" != "$last" ]; then
    [ -n "$last" ] && git -C /repo worktree remove --force /tmp/pre_fix_wt 2>/dev/null
    git -C /repo worktree add -q --detach /tmp/pre_fix_wt ${commit}~1 || { echo "cannot check out ${commit}~1"; rc=1; continue; }
    last=$commit
  fi
  pre=$(VERIF_REPO=/tmp/pre_fix_wt ./check $prop --replay $replay 2>&1 | tail -1)
  post=$(./check $prop --replay $replay 2>&1 | tail -1)
  case "$pre" in VIOLATION*) a=fails;; *) a="DOES-NOT-FAIL"; rc=1;; esac
  case "$post" in VIOLATION*) b="STILL-FAILS"; rc=1;; *) b=passes;; esac
  echo "$id ($commit): before fix $a, at HEAD $b"
done < /tmp/fixed_list.txt
git -C /repo worktree remove --force /tmp/pre_fix_wt 2>/dev/null
exit $rc
