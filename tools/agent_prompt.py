#!/venv/bin/python
"""prints the prompt given to a mutation sub-agent: property text + worktree only."""
import json, sys
pid, wt = sys.argv[1], sys.argv[2]
n = sys.argv[3] if len(sys.argv) > 3 else '3'
for l in open('/verif/properties.jsonl'):
    p = json.loads(l)
    if p['id'] == pid:
        break
print(f"""You are helping to evaluate a verification effort for the open-source Python/Cython library PySPH (Smoothed Particle Hydrodynamics framework). Your job is to play the role of a developer who introduces a subtle, realistic regression.

You have your own scratch git worktree of the repository at {wt} (detached HEAD). Work ONLY inside {wt}; do not read or touch /repo or /verif or any other directory outside {wt} (except the Python interpreter /venv/bin/python and its installed packages). There is no network.

How to run code against your worktree: `cd {wt} && PYTHONPATH={wt} HOME={wt}/.home /venv/bin/python yourscript.py` (PYTHONPATH makes `import pysph` resolve to the worktree, which already contains compiled extension modules (.so) matching the unmodified sources; HOME keeps run-time generated code caches private). If you change any .pyx/.pxd/.mako/.h file you must rebuild: `cd {wt} && /venv/bin/python setup.py build_ext --inplace -j6` (1-3 minutes). Pure .py changes need no rebuild.

THE PROPERTY (a semantic property of PySPH that is supposed to hold for every input/schedule/history):

  id: {p['id']}
  title: {p['title']}
  statement: {p['statement']}
  quantified over: {p['quantifier']['text']}
  code it is anchored in: {', '.join(p['anchors']['files'])}

TASK: produce {n} DIFFERENT changes (mutations) to the library source under {wt}/pysph, each of which
  (a) breaks the property above (genuinely: the library then behaves wrongly in some situation the property covers),
  (b) still compiles/imports, and still passes the repository's existing tests that exercise that code (run at least the relevant test modules, e.g. `cd {wt} && PYTHONPATH={wt} HOME={wt}/.home /venv/bin/python -m pytest -q -p no:cacheprovider -x <relevant test files>`; tests that already fail on the unmodified tree do not count),
  (c) needs something SPECIFIC to manifest - a particular interleaving, a fault at a particular point, a multi-step sequence of operations, an unusual input or configuration, or two cooperating code sites that each look fine alone - NOT something any ordinary use would expose at once. Think of the kind of bug that survives code review and CI: an off-by-one at a boundary, a stale cache/bookkeeping field after a rarely used operation, a dropped notify, a wrong lock order, a condition that is only wrong for a rare configuration, a missing reset between two arrays, etc.
  Make the changes small (a few lines) and plausible. Each mutation must be independent (made against the clean tree). Vary WHERE and HOW they break the property; prefer different mechanisms/sub-clauses of the property.

For each mutation k = 1..{n} write into {wt}/mutations/m<k>/ :
  - patch.diff : the output of `git -C {wt} diff` for that mutation alone (against the clean HEAD),
  - demo.py    : a small self-contained program that exits with status 1 (printing what went wrong) when run against the mutated tree and exits 0 against the clean tree. It must demonstrate a violation of the property as stated (not merely that code changed). Verify BOTH directions yourself.
  - notes.md   : 5-10 lines: what was changed, which clause of the property it breaks, exactly what is needed for it to manifest, which existing tests you ran and that they passed.
After saving each mutation, restore the worktree (`git -C {wt} checkout -- . ` and rebuild if you had changed compiled sources) so that the tree is clean at the end (the mutations/ directory stays).

Be careful and honest: if a candidate change turns out to be caught by an existing test, or your demo does not reliably fail, discard it and try another. Finish with a short summary listing each mutation, the files touched, and the trigger condition.""")
