#!/bin/sh
# tools/seed_sweep.sh <first seed> <last seed> [ids...]: quick tier of every (or the given) check under several VERIF_SEED values;
# used to look for rare alarms on the unchanged tree.  Does not touch the evidence files.
cd "$(dirname "$0")/.." || exit 2
A=$1; B=$2; shift; shift
IDS=${*:-$(/venv/bin/python -c "import json;print(' '.join(c['property_id'] for c in json.load(open('MANIFEST.json'))['checks']))")}
for s in $(seq $A $B); do
  for id in $IDS; do
    VERIF_SEED=$s VERIF_NO_EVIDENCE=1 ./check $id --tier quick > /tmp/sweep_${id}_$s.out 2>&1; r=$?
    echo "seed=$s $id exit=$r $(grep '^runs=' /tmp/sweep_${id}_$s.out | cut -c1-70)"
    if [ $r -ne 0 ]; then grep -E "^(VIOLATION|HARNESS|violation of)" /tmp/sweep_${id}_$s.out | cut -c1-400; fi
  done
done
