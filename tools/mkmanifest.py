#!/venv/bin/python
"""regenerates /verif/MANIFEST.json from the table below (kept in one place so
that it stays valid while checks are added)."""
import json
import os

HERE = os.path.dirname(os.path.dirname(os.path.abspath(__file__)))

NA = {
 'C02': 'pure function of (program, input): the values a compiled equation computes do not depend on any schedule, clock, fault or history, so a simulator adds nothing over differential input generation (the per-thread scratch mechanism is exercised under C05\'s simulated schedules, not claimed here)',
 'C08': 'kernel normalisation/consistency are identities of pure real functions of (r, h, dim); no state, time or interleaving exists to simulate',
 'C11': 'a fault-free round trip load(dump(x)) = x over inputs x formats; the property states nothing about torn or failed writes, so injected I/O faults could decide nothing about it',
 'C12': 'a finite enumeration of scheme option combinations, each a pure set-up-and-generate computation',
 'C13': 'gj_solve, the matrix helpers and the 3x3 eigen-decomposition are pure functions of their matrix argument',
 'C15': 'Riemann solvers are pure functions of the left/right states',
 'C19': 'compute_time_step is a pure reduction over the arrays\' current contents; no schedule or history dependence',
 'C20': 'rejection at set-up is a pure function of (equations, arrays); no run-time behaviour is involved',
}

# property -> (engine name, engine path, technique, level text, level note, design ref)
CHECKS = {
 'C18': ('E-THR', 'engines/e_thr.py',
         'deterministic simulation: controller.py executed on a simulated threading under seeded schedules (random/PCT/sticky/starvation), history oracle + deadlock and fair-schedule liveness detection',
         'seeded search over interleavings at synchronisation-primitive granularity of one solver thread (stub loop or the real Solver.solve) and 1-2 interface threads (unique or equal thread names, a CLI front end in some runs, two waiting front ends that meet before they continue, generated controller methods called by keyword or position, one Controller object shared by both front ends) running the unmodified controller.py; exactly-once, result delivery, pause/no-progress, deadlock and bounded liveness under a fair schedule are checked on every run. Sampling, not proof: a clean batch is evidence.',
         'trusts vsim.simthreads to implement CPython Lock/RLock/Condition semantics (FIFO notify, no spurious wake-ups); solver and front-end I/O are fakes; blocking-mode commands (executed in the caller) are outside the statement',
         'DESIGN.md section 3 E-THR'),
}

CHECKS['C10'] = ('E-SOLVE', 'engines/e_solve.py',
    'deterministic simulation: real Solver.solve driven by a scripted environment (fake integrator answering adaptive steps, fake clock with jumps, callbacks), trace predicates over the recorded step/dump history',
    'seeded search over (dt, tf, pfreq, requested output times incl. clusters/step-time coincidences/1-ulp neighbours, n_damp, max_steps, adaptive answer sequences incl. None and order-of-magnitude jumps, callbacks, command handler, progress-bar clock jumps; parameters through the constructor or through the setters in a drawn order; a second Solver instance with callbacks of its own in the process; a run stopped by max_steps continued with a second solve(), optionally without the initial damping); predicates: reaches tf, time strictly increases, step <= nominal, dumps at start/end/pfreq/requested times never stepped over, recorded dt nominal, callbacks once per step. Sampling, not proof.',
    'integrator, particle arrays, dump_output and the clock are fakes; the writers themselves are C11\'s subject; tolerances are 4x the solver\'s own epsilon',
    'DESIGN.md section 3 E-SOLVE')

CHECKS['C06'] = ('E-PA', 'engines/e_pa.py',
    'deterministic simulation (history dimension only): seeded histories of public ParticleArray operations on the compiled class, checked operation by operation against a record-list reference model',
    'seeded search over histories (<= 40 operations, 1-3 arrays, typed/strided properties, constants, mixed tags, empty arrays; index arguments as list / ndarray / LongArray in drawn order, open-ended copy ranges, re-declared properties, truthy flags that are not True, property names resembling the built-in ones, empty replicas from get_particles_info); after every operation: lengths = n x stride, recorded strides/types/defaults, multiset of whole records equal to the model, constants, alignment and num_real_particles. No schedule or fault exists for this property; only the history is searched. Sampling, not proof.',
    'the model and the value generators in engines/e_pa.py; only valid arguments are generated; physical order is checked only through the alignment invariant',
    'DESIGN.md section 3 E-PA')

CHECKS['C01'] = ('E-NNPS', 'engines/e_nnps.py',
    'deterministic simulation: seeded update histories (move / h change / add / remove / cache toggle / re-order + update) and cache-fill schedules (lazy fill in a drawn order, find_all_neighbors under drawn thread counts, implicit/explicit context) on every compiled CPU NNPS class, exact brute-force oracle with an equality band; every run in its own forked child',
    'seeded search over (distribution incl. lattice-on-faces/coincident/collinear/far-from-origin/h over decades, class and knobs, 1-3 arrays with Local or mixed tags, all (src,dst) pairs, update history, query mode incl. cached and uncached queries sharing one output array, arrays empty at construction and filled later, all arrays on one line along an axis, the same pair asked across an update without set_context); oracle: no missing / extra / duplicate / out-of-range index. Classes with recorded defects (z-order family, octree crashes) get a fixed small share of the runs and are attributed to narrowly signed known findings. Sampling, not proof.',
    'brute-force oracle in Python floats; pairs within 1e-12 relative of the cut-off may go either way; approximate=False; grid size bounded; slow (>25 s) runs are counted, not reported; real OpenMP threads for find_all_neighbors (static schedule) are not owned by the simulator',
    'DESIGN.md section 3 E-NNPS')
CHECKS['C17'] = ('E-NNPS', 'engines/e_nnps.py',
    'deterministic simulation (history dimension): seeded histories dominated by spatial re-ordering on arrays with typed/strided identity properties and non-local tags, for every class implementing get_spatially_ordered_indices; permutation / whole-particle multiset / real-first invariants and exact queries after the next update',
    'seeded search over distributions, classes, repeated re-ordering (directly or through Solver.reorder_particles, optionally inside a periodic box whose ghosts sit in the arrays) interleaved with moves/adds/removes, properties added after the NNPS was built, a restricted load-balancing property list, the in-parallel flag, NaN / signed-zero property values; checks: index list is a permutation of 0..n-1, multiset of whole particle records (all properties, strides) unchanged, Local particles first and counted by num_real_particles, neighbour queries exact after the following update. Sampling, not proof.',
    'same trusted base as C01; neighbour-set violations without any re-ordering in the history are left to C01',
    'DESIGN.md section 3 E-NNPS / section 4 C17')

CHECKS['C07'] = ('E-DOM', 'engines/e_dom.py',
    'deterministic simulation (history dimension): seeded move / add / remove / add-property then update rounds on the compiled DomainManager with 1-3 arrays, checked after every update against a product model of periodic images and reflections',
    'seeded search over boxes, per-axis periodic/mirror flags (incl. mixed), dims 1-3, n_layers, copied-property subsets (list and per-array dict), particles on faces / 1 ulp off / in corners / outside by < one period, variable h, several arrays, and histories of rounds; checks: wrapping, ghost set = product model (none missing, duplicated, misplaced), exact copies incl. typed/strided properties, reversed normal velocity for reflections, tags, real particles first and unchanged, no accumulation, every interacting image present, the images of one particle form a product over the axes; Remote-tagged particles, ghosts left by an earlier manager, coordinates handed over through add_property. Sampling, not proof.',
    'product model in engines/e_dom.py; layer boundary band 1e-12; periods >= 1.2 layers; images at one period only; layer may be as thick as stale ghosts of the previous update make it',
    'DESIGN.md section 3 E-DOM')

CHECKS['C16'] = ('E-IO', 'engines/e_io.py',
    'deterministic simulation (history dimension): the simulator plays the integrator (advects inlet, fluid and outlet particles with a seeded velocity history) and calls the real Inlet/Outlet update of each shipped family; token model of the documented transfer rules checked after every update',
    'seeded search over zone geometries (5 families or the default update classes, 1-3 D, axis-aligned and oblique normals, zone lengths, rows, ghost inlet / ghost outlet, props_to_copy, array names containing each other, a manager used before with other zone lengths, an idle second inlet, ghost-tagged bystanders in the fluid, an early load-balancing property list); ghost array identity and real-particle counts of every array checked and velocity histories (uniform, sheared, reversing, several particles crossing in one update, landings within 1e-6 of an interface, overshooting the outlet zone, inactive stages); checks: each emission exactly once with copied values and the original recycled one zone length upstream, each fluid particle past the outlet plane moved exactly once, deletion beyond the far end by the next active update, nothing else created / duplicated / lost / changed, fluid count = initial + entered - left. Sampling, not proof.',
    'the integrator is a fake; displacement between active updates below the inlet and fluid lengths; 1e-9 band around the code\'s own 1e-6 threshold',
    'DESIGN.md section 3 E-IO')

CHECKS['C05'] = ('E-OMP', 'engines/e_omp.py',
    'deterministic simulation: whole Application runs under a seeded option swarm and, through guarded hooks, a simulated OpenMP schedule (drawn chunking, chunk-to-thread assignment, global execution order, cache thread ids); metamorphic relations to a serial linked-list baseline; write-set monitor at chunk boundaries',
    'seeded search over (problem: free-surface / two-array wall-bounded / periodic incompressible / mirror-domain gas dynamics / adaptive h with nested groups / two arrays that start to interact late) x --nnps (10 values + knobs) x --cache-nnps x --sort-gids x --reorder-freq x valid / invalid / partly valid shuffled gids x schedule (serial, real OpenMP 1-16 threads, simulated k threads with static/dynamic/guided chunking in a drawn interleaving); R1 bit-identical when sorted, R2 per-particle equality within 1e-7 otherwise, R3 repeat bit-identical; a stamped strided property stays with its particle; sampled check that a loop chunk writes only its own destination rows. Sampling, not proof.',
    'simulated schedule has iteration granularity (interference inside one iteration is only covered by real-OpenMP outcome); problems are 7 small set-ups (elliptical drop, cavity, periodic Taylor-Green with the TVF and with the GTVF scheme, gas shock tube in a mirror domain, adaptive-h block with a nested update_nnps group, tall fluid block with a coarse patch reaching a fixed bed after some steps) at 25-500 particles, 1-12 steps; hooks H1/H2 in /repo (guarded)',
    'DESIGN.md section 3 E-OMP')

CHECKS['C14'] = ('E-INTERP', 'engines/e_interp.py',
    'deterministic simulation (history dimension): seeded histories of interpolate / move+update / h change / value change / update_particle_arrays / set_interpolation_points on the real Interpolator (5 methods, generated evaluators) and, for 30% of the runs, the same equations through SPHEvaluator, each result compared with brute-force defining sums using the Python kernel classes',
    'seeded search over 1-3 source arrays, dims 1-3, variable h / mass / density, properties missing in some arrays, explicit targets (1-D or 2-D arrays in C / Fortran order, integer-typed, zero coordinates left out) or the automatic grid, periodic domains, kernels, and re-binding/update histories; results compared at the user\'s own target points, result shape, earlier results unchanged, detected dimension and automatic-grid bounds, a second Interpolator alive, a flat array listed last, data in a small length unit, re-binding back to the original arrays, update(update_domain=False); Shepard / sph / splash / splash_norm against their sums (zero where no source is in range, Shepard bounds), order1 against the solved moment system and linear-field reproduction where well conditioned. Sampling, not proof.',
    'oracle reads the source arrays as they are (ghost creation is C07\'s subject) and the target h the interpolator holds; 1e-9 relative tolerance; order1 skipped where cond(moment) >= 1e6',
    'DESIGN.md section 3 E-INTERP')

CHECKS['C03'] = ('E-GROUP', 'engines/e_group.py',
    'deterministic simulation: a pool of generated group trees (tracing equations) executed by the real code generator + compiled program, serially and under a simulated loop schedule, with scripted condition answers / convergence thresholds / start-stop values; refinement check (exact equality of final states, constants and the pre/post/condition/py_initialize/reduce history) against a sequential reference interpreter calling the same Python methods',
    'seeded search over (program from the pool - hand-written and generated trees -, optionally compiled as stage 0 of a multi-stage problem sharing its equation objects, optionally evaluated a second time after update_particle_arrays, empty arrays, condition objects with a false truth value, particle data incl. ghost-tagged particles, condition answers, convergence thresholds, named/numeric start-stop values, t/dt, periodic domain on/off, cache on/off, simulated schedule on/off); exact equality with the literal execution of the documented semantics (group order, hook order per destination and source, index ranges, real flag, iterate/min/max, condition, pre/post, update_nnps incl. ghost refresh, sub-groups). Sampling, not proof.',
    'programs are from a generated family of 12 tracing equation classes (pool of 3 hand-written + 9 generated trees in quick, 120 in thorough), not arbitrary user code; neighbour order fixed by sort_gids; reference interpreter in engines/e_group.py',
    'DESIGN.md section 3 E-GROUP')

CHECKS['C04'] = ('E-INTEG', 'engines/e_integ.py',
    'deterministic simulation: every shipped integrator and three user-defined ones (tracing steppers, py_stage hooks, two equation sets, update_nnps=False, different / same-class steppers per array, particle-injecting hook, an empty array) and shipped steppers, compiled by the real generator and stepped serially or under a simulated loop schedule; refinement check against a literal execution of the Python one_timestep (proxy self, Python stepper methods)',
    'seeded search over (integrator x stepper program incl. underscore-prefixed stepper parameters, a source-less equation set, three equation sets in same-named groups, a stepper with one stage only next to a full one, a same-named integrator class compiled earlier, a callback object with false truth value or a bound method of a temporary; the literal execution uses independently compiled evaluators; particle states with ghost-tagged particles, 1-4 consecutive steps incl. t0 != 0 and non-contiguous times, periodic domain on/off, simulated schedule on/off); exact equality (tracing) or 1e-13 relative (shipped steppers) of the final state and equality of the compute_accelerations(index, update_nnps) / update_domain / post-stage (t + stage_dt, dt, stage) history. Sampling, not proof.',
    'the compiled acceleration evaluator is shared by both sides (C03\'s subject); rigid-body steppers (body-indexed arrays) left out; every run in its own forked child with the cyclic GC off (an unexplained segfault at garbage collection of earlier generated modules was seen once runs shared a process)',
    'DESIGN.md section 3 E-GROUP / section 4 C04')

PENDING = {}


def main():
    checks = []
    engines = {}
    for pid in sorted(CHECKS):
        eng, path, tech, text, note, ref = CHECKS[pid]
        engines.setdefault(eng, dict(name=eng, path=path, serves_properties=[],
                                     kind_free_text='deterministic simulation engine (seeded scenarios, structural shrinking, replay files)'))
        engines[eng]['serves_properties'].append(pid)
        checks.append(dict(
            property_id=pid,
            quick_cmd='./check %s --tier quick' % pid,
            thorough_cmd='./check %s --tier thorough' % pid,
            evidence_file='evidence/%s.json' % pid,
            replay_cmd_template='./check %s --replay {path}' % pid,
            engine=eng,
            level_claimed=dict(category='exploration', text=text, design_ref=ref),
            level_note=note,
            technique=tech))
    na = [dict(property_id=k, reason=v) for k, v in sorted(NA.items())]
    na += [dict(property_id=k, reason=v) for k, v in sorted(PENDING.items())]
    m = dict(
        version=1,
        setup_cmd='./setup.sh',
        hooks=dict(guard='PYSPH_VERIF',
                   enable='PYSPH_VERIF=1 (plus PYSPH_VERIF_SCHED=1 for simulated OpenMP schedules) in the environment of the engine processes; the checks build an overlay of /repo\'s working tree under ~/.cache/pysph_verif and import pysph from there',
                   baseline_off_cmd='cd /repo && env -u PYSPH_VERIF -u PYSPH_VERIF_SCHED /venv/bin/python -m pytest -ra -q -p no:cacheprovider --timeout=900 --continue-on-collection-errors',
                   source_commits=HOOK_COMMITS,
                   add_only=True),
        engines=[engines[k] for k in sorted(engines)],
        checks=checks,
        not_applicable=na,
        notes='All checks: ./check <ID> --tier quick|thorough; honour VERIF_SEED, VERIF_TIER, VERIF_BUDGET_SCALE; exit 0 held / 1 VIOLATION / 2 HARNESS-ERROR. Known findings and fixed regressions: known_findings.json. See DESIGN.md.')
    with open(os.path.join(HERE, 'MANIFEST.json'), 'w') as f:
        json.dump(m, f, indent=1)
        f.write('\n')


HOOK_COMMITS = ['a3361d4', '98bab96']

if __name__ == '__main__':
    NA['C09'] = 'momentum conservation of the pair-symmetric terms is quantified over inputs and configurations only (particle data x kernel x neighbour algorithm); the value computed for given arrays does not depend on any schedule, clock, fault or history, so a simulator adds nothing over input sampling (DESIGN.md kept the option of an in-run monitor; it was dropped for this reason). What the schedule could change -- which thread evaluates which particle -- is decided under C05'
    for pid in ['C01', 'C03', 'C04', 'C05', 'C06', 'C07', 'C10', 'C14', 'C16', 'C17']:
        if pid not in CHECKS:
            PENDING[pid] = 'not claimed yet: its simulation engine is planned (DESIGN.md section 4) but not built at this commit'
    main()
