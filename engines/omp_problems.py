"""Small Application subclasses (shipped examples with an identity property)
used by E-OMP: free-surface (elliptical drop), wall-bounded with two arrays
(cavity) and periodic (Taylor-Green)."""
import numpy as np


def _stamp(particles, valid_gids):
    k = 1
    for pa in particles:
        n = pa.get_number_of_particles()
        ids = np.arange(k, k + n, dtype=np.int64)
        k += n
        pa.add_property('ident', type='long', data=ids if n else None)
        if valid_gids and n:
            pa.get('gid', only_real_particles=False)[:] = ids.astype(np.uint32)
        pa.add_output_arrays(['ident'])
    return particles


def make_app(problem, valid_gids):
    if problem == 'drop':
        from pysph.examples.elliptical_drop import EllipticalDrop as Base
    elif problem == 'cavity':
        from pysph.examples.cavity import LidDrivenCavity as Base
    elif problem == 'tg':
        from pysph.examples.taylor_green import TaylorGreen as Base
    elif problem == 'sod':
        # 1-D gas dynamics in a mirror domain, variable smoothing length
        from pysph.examples.gas_dynamics.sod_shocktube import SodShockTube as Base
    else:
        raise ValueError(problem)

    class App(Base):
        def create_particles(self):
            return _stamp(Base.create_particles(self), valid_gids)

        def post_process(self, *a, **k):
            pass
    App.__name__ = 'Verif_' + problem
    return App(fname='verif_' + problem)


def problem_args(problem, nx):
    if problem == 'drop':
        return ['--nx', str(nx)]
    if problem == 'cavity':
        return ['--nx', str(nx)]
    if problem == 'tg':
        return ['--nx', str(nx), '--scheme', 'tvf']
    if problem == 'sod':
        return ['--nl', str(nx), '--scheme', 'mpm']
    raise ValueError(problem)
