#!/bin/sh
# tools/check_seeded.sh [name-prefix ...]: applies every kept seeded change to /repo in turn, runs the quick check of the
# property it breaks (meta.json; `check_with` names another property's check where that is the one that catches it) and reports whether it was caught.  /repo is restored after each.
cd /verif || exit 2
PAT=${*:-C}
rc=0
for d in seeded/*/; do
  n=$(basename "$d")
  ok=0; for p in $PAT; do case "$n" in $p*) ok=1;; esac; done
  [ $ok = 1 ] || continue
  [ -f "$d/meta.json" ] || continue
  if /venv/bin/python -c "import json,sys;sys.exit(0 if json.load(open('$d/meta.json')).get('not_caught') else 1)"; then echo "SKIPPED $n (recorded as not caught, see DESIGN 10.5)"; continue; fi
  prop=$(/venv/bin/python -c "import json;m=json.load(open('$d/meta.json'));print(m.get('check_with') or m['property'])")
  out=$(/verif/tools/try_mutation.sh "/verif/$d/patch.diff" $prop --tier quick 2>&1 | tail -1)
  case "$out" in *exit=1*) echo "CAUGHT  $n ($prop)";; *) echo "MISSED  $n ($prop) $out"; rc=1;; esac
done
exit $rc
