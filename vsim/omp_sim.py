"""Simulated OpenMP loop scheduler used through the guarded hooks H1/H2.

Generated code (built with PYSPH_VERIF=1, PYSPH_VERIF_SCHED=1) calls
  SCHED.order(start, stop)   -> iteration order of a loop without thread ids
  SCHED.chunks(start, stop)  -> (thread_id, indices) chunks of a neighbour loop
  SCHED.enter(thread_id)     -> before a chunk runs (sets the cache's thread id)
Every decision comes from one random.Random(seed) configured by the engine, so
one seed = one assignment of iterations to threads and one global order.
"""
import random

import numpy as np


class Sched(object):
    def __init__(self):
        self.configure(1, 0, 'serial')

    def configure(self, nthreads, seed, policy='mixed', watch=None, check_prob=0.0):
        self.nthreads = max(1, int(nthreads))
        self.rng = random.Random(seed)
        self.policy = policy
        self.watch = watch or []          # particle arrays for the write-set monitor
        self.check_prob = check_prob
        self.nloops = 0
        self.nchunks = 0
        self.violations = []
        self.stats = dict(loops=0, chunks=0, cross_thread_chunks=0, checked_chunks=0, tids_used=set())
        self._set_tid = None

    # ------------------------------------------------------------------
    def _partition(self, start, stop):
        """-> list of (tid, [indices]) in execution order"""
        n = max(0, stop - start)
        if n == 0:
            return []
        k = self.nthreads
        pol = self.policy
        if pol == 'serial':
            return [(0, list(range(start, stop)))]
        if pol == 'mixed':
            pol = self.rng.choice(['static', 'dynamic', 'dynamic', 'guided', 'reverse'])
        per_thread = [[] for _ in range(k)]
        if pol == 'static':
            size = (n + k - 1) // k
            for t in range(k):
                lo, hi = start + t * size, min(stop, start + (t + 1) * size)
                if lo < hi:
                    per_thread[t].append(list(range(lo, hi)))
        elif pol == 'reverse':
            # static blocks handed to threads in reverse
            size = (n + k - 1) // k
            for t in range(k):
                lo, hi = start + t * size, min(stop, start + (t + 1) * size)
                if lo < hi:
                    per_thread[k - 1 - t].append(list(range(lo, hi)))
        else:
            if pol == 'guided':
                chunks = []
                i = start
                rem = n
                while rem > 0:
                    c = max(1, rem // (2 * k))
                    chunks.append(list(range(i, i + c)))
                    i += c
                    rem -= c
            else:
                c = self.rng.choice([1, 2, 3, 5, 8, 64])
                chunks = [list(range(i, min(stop, i + c))) for i in range(start, stop, c)]
            # dynamic: the next chunk goes to whichever thread "asks" next
            for ch in chunks:
                per_thread[self.rng.randrange(k)].append(ch)
        # global execution order: interleave the threads, each keeping its own order
        out = []
        heads = [0] * k
        live = [t for t in range(k) if per_thread[t]]
        while live:
            t = self.rng.choice(live)
            out.append((t, per_thread[t][heads[t]]))
            heads[t] += 1
            if heads[t] >= len(per_thread[t]):
                live.remove(t)
        return out

    def order(self, start, stop):
        self.stats['loops'] += 1
        out = []
        for t, idx in self._partition(int(start), int(stop)):
            out.extend(idx)
        return out

    def enter(self, tid):
        self.stats['tids_used'].add(int(tid))
        if self._set_tid is None:
            from pysph.base import nnps_base
            self._set_tid = nnps_base._verif_set_tid
        self._set_tid(int(tid))

    def leave(self):
        if self._set_tid is not None:
            self._set_tid(-1)

    def chunks(self, start, stop):
        self.stats['loops'] += 1
        parts = self._partition(int(start), int(stop))
        check = bool(self.watch) and self.rng.random() < self.check_prob
        for t, idx in parts:
            self.stats['chunks'] += 1
            snap = None
            if check:
                snap = [(pa, {p: a.get_npy_array().copy() for p, a in pa.properties.items()}) for pa in self.watch]
            yield (t, idx)
            if snap is not None:
                self.stats['checked_chunks'] += 1
                self._check_write_set(snap, idx)
        self.leave()

    def _check_write_set(self, snap, idx):
        own = set(idx)
        for pa, cols in snap:
            n = pa.get_number_of_particles()
            for p, old in cols.items():
                new = pa.properties[p].get_npy_array()
                if len(new) != len(old):
                    continue
                if n == 0:
                    continue
                stride = max(1, len(new) // n)
                ne = (new != old) & ~((new != new) & (old != old))
                if ne.any():
                    rows = set((np.nonzero(ne)[0] // stride).tolist())
                    if not rows <= own and len(self.violations) < 3:
                        self.violations.append(
                            'a loop chunk over destination indices %r wrote rows %r of %s.%s' % (
                                sorted(own)[:8], sorted(rows - own)[:8], pa.name, p))


SCHED = Sched()
