"""Self-tests of the simulator itself: determinism across fresh interpreters and
hash seeds, and differential checks of the simulated threading primitives."""
import os
import subprocess
import sys
import tempfile

VERIF = os.path.dirname(os.path.dirname(os.path.abspath(__file__)))


def determinism(prop, tier, master, n):
    """run indices 0..n-1 in two fresh interpreters with different
    PYTHONHASHSEED values and compare the per-run logs line by line."""
    d = tempfile.mkdtemp(prefix='verif-det-', dir=os.environ.get('VERIF_CACHE') or None)
    files = []
    try:
        procs = []
        for k, hs in enumerate(('0', '4242', '977')):
            env = dict(os.environ)
            env['PYTHONHASHSEED'] = hs
            env['VERIF_SEED'] = str(master)
            env['HOME'] = os.environ.get('VERIF_REAL_HOME', env.get('HOME', '/root'))
            f = os.path.join(d, 'log%d' % k)
            files.append(f)
            procs.append(subprocess.Popen([sys.executable, os.path.join(VERIF, 'check.py'), prop,
                                           '--tier', tier, '--digest-log', str(n), f], env=env))
        for p in procs:
            if p.wait() != 0:
                print('HARNESS-ERROR digest-log run failed')
                return 2
        logs = [open(f).read().splitlines() for f in files]
        bad = 0
        for i in range(max(len(l) for l in logs)):
            rows = set(l[i] if i < len(l) else '<missing>' for l in logs)
            if len(rows) != 1:
                bad += 1
                if bad <= 5:
                    print('run %d differs:' % i)
                    for r in sorted(rows):
                        print('   ' + r[:300])
        if bad:
            print('HARNESS-ERROR nondeterministic: %d of %d runs differ between interpreters' % (bad, n))
            return 2
        print('determinism: %d runs x 3 fresh interpreters (PYTHONHASHSEED 0/4242/977) identical' % n)
        return 0
    finally:
        import shutil
        shutil.rmtree(d, ignore_errors=True)
