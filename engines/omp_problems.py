"""Small Application subclasses (shipped examples with an identity property)
used by E-OMP: free-surface (elliptical drop), wall-bounded with two arrays
(cavity) and periodic (Taylor-Green)."""
import numpy as np


def _stamp(particles, valid_gids):
    k = 1
    for pa in particles:
        n = pa.get_number_of_particles()
        ids = np.arange(k, k + n, dtype=np.int64)
        k += n
        pa.add_property('ident', type='long', data=ids if n else None)
        # a strided property that belongs to the particle (like a reference configuration or a stress tensor)
        pa.add_property('trip', type='double', stride=3,
                        data=(np.repeat(ids, 3).astype(float) + np.tile([0.0, 0.25, 0.5], n)) if n else None)
        if valid_gids == 2 and n:
            # user-assigned gids in an order of their own for most particles, the default (invalid) gid for the others
            g = pa.get('gid', only_real_particles=False)
            vals = ((ids * 7919) % 100003).astype(np.uint32)
            keep = (ids % 5) != 0
            g[keep] = vals[keep]
        elif valid_gids and n:
            pa.get('gid', only_real_particles=False)[:] = ids.astype(np.uint32)
        pa.add_output_arrays(['ident'])
    return particles


from pysph.sph.equation import Equation, Group


class ScaleH(Equation):
    def __init__(self, dest, sources, factor):
        self.factor = factor
        super(ScaleH, self).__init__(dest, sources)

    def initialize(self, d_idx, d_h):
        d_h[d_idx] = d_h[d_idx]*self.factor


class HFromVolume(Equation):
    def __init__(self, dest, sources, k, dim):
        self.k = k
        self.dim1 = 1.0/dim
        super(HFromVolume, self).__init__(dest, sources)

    def initialize(self, d_idx, d_h, d_m, d_rho):
        d_h[d_idx] = self.k*pow(d_m[d_idx]/d_rho[d_idx], self.dim1)


class LinearEOS(Equation):
    def __init__(self, dest, sources, rho0, c0):
        self.rho0 = rho0
        self.c0 = c0
        super(LinearEOS, self).__init__(dest, sources)

    def initialize(self, d_idx, d_p, d_rho, d_cs):
        d_p[d_idx] = self.c0*self.c0*(d_rho[d_idx] - self.rho0)
        d_cs[d_idx] = self.c0


def _adaptive_h_app(nx):
    """a free-surface block with a smoothing length that changes inside the acceleration evaluation (the pattern of the
    shipped GSPH scheme: widen h, sum the density, set h back from the volume), written with nested groups whose outer
    group asks for the neighbour update"""
    from pysph.base.utils import get_particle_array_wcsph
    from pysph.base.kernels import CubicSpline
    from pysph.solver.application import Application
    from pysph.solver.solver import Solver
    from pysph.sph.integrator import EPECIntegrator
    from pysph.sph.integrator_step import WCSPHStep
    from pysph.sph.basic_equations import SummationDensity, XSPHCorrection
    from pysph.sph.wc.basic import MomentumEquation
    dx = 1.0/nx
    hdx, rho0, c0 = 1.2, 1.0, 10.0

    class AdaptiveH(Application):
        def create_particles(self):
            rng = np.random.RandomState(1234)
            x, y = np.mgrid[0:1.0:dx, 0:1.0:dx]
            x = x.ravel() + 0.2*dx*(rng.random_sample(x.size) - 0.5)
            y = y.ravel() + 0.2*dx*(rng.random_sample(y.size) - 0.5)
            pa = get_particle_array_wcsph(name='fluid', x=x, y=y, m=np.ones_like(x)*dx*dx*rho0, h=np.ones_like(x)*hdx*dx,
                                          rho=np.ones_like(x)*rho0)
            return [pa]

        def create_solver(self):
            return Solver(dim=2, kernel=CubicSpline(dim=2), integrator=EPECIntegrator(fluid=WCSPHStep()), dt=2e-4, tf=1.0)

        def create_equations(self):
            return [
                Group(equations=[Group(equations=[ScaleH(dest='fluid', sources=None, factor=2.0)])], update_nnps=True),
                Group(equations=[SummationDensity(dest='fluid', sources=['fluid'])]),
                Group(equations=[Group(equations=[HFromVolume(dest='fluid', sources=None, k=hdx, dim=2)]),
                                 Group(equations=[LinearEOS(dest='fluid', sources=None, rho0=rho0, c0=c0)])], update_nnps=True),
                Group(equations=[MomentumEquation(dest='fluid', sources=['fluid'], c0=c0, alpha=0.0, beta=0.0),
                                 XSPHCorrection(dest='fluid', sources=['fluid'], eps=0.1)]),
            ]
    return AdaptiveH


def _impact_app(nx):
    """a fluid block that flies towards a fixed bed: the (fluid, bed) pairs have no neighbours at all during the first
    steps and start to interact later (neighbour bookkeeping for pairs that were empty must be refreshed)"""
    from pysph.base.utils import get_particle_array_wcsph
    from pysph.base.kernels import CubicSpline
    from pysph.solver.application import Application
    from pysph.solver.solver import Solver
    from pysph.sph.integrator import EPECIntegrator
    from pysph.sph.integrator_step import WCSPHStep
    from pysph.sph.basic_equations import ContinuityEquation, XSPHCorrection
    from pysph.sph.wc.basic import MomentumEquation, TaitEOS
    dx = 1.0/nx
    hdx, rho0, c0 = 1.2, 1.0, 10.0

    class Impact(Application):
        def create_particles(self):
            rng = np.random.RandomState(4321)
            # (taller than wide: more cells along y than along x)
            x, y = np.mgrid[0:0.5:dx, 0:1.0:dx]
            x = x.ravel() + 0.1*dx*(rng.random_sample(x.size) - 0.5)
            # lowest fluid row 0.3 dx outside the support (2 h = 2.4 dx) of the top bed row at y = 0
            y = y.ravel() + 2.7*dx + 0.05*dx*rng.random_sample(y.size)
            top_first = np.argsort(-y, kind='stable')
            x, y = x[top_first], y[top_first]
            hf = np.ones_like(x)*hdx*dx
            mf = np.ones_like(x)*dx*dx*rho0
            # a coarse patch listed first (the top row, far from the bed): the particles with the largest h have the lowest indices
            hf[:nx] *= 1.6
            mf[:nx] *= 2.0
            fluid = get_particle_array_wcsph(name='fluid', x=x, y=y, m=mf, h=hf, rho=np.ones_like(x)*rho0, v=-np.ones_like(x))
            bx, by = np.mgrid[-dx:0.5 + dx:dx, -2*dx:dx/2:dx]
            bx, by = bx.ravel(), by.ravel()
            bed = get_particle_array_wcsph(name='bed', x=bx, y=by, m=np.ones_like(bx)*dx*dx*rho0, h=np.ones_like(bx)*hdx*dx,
                                           rho=np.ones_like(bx)*rho0)
            return [fluid, bed]

        def create_solver(self):
            # 0.1 dx per step: the gap closes during the fourth step
            return Solver(dim=2, kernel=CubicSpline(dim=2), integrator=EPECIntegrator(fluid=WCSPHStep(), bed=WCSPHStep()),
                          dt=0.1*dx, tf=10.0, adaptive_timestep=False)

        def create_equations(self):
            return [
                Group(equations=[TaitEOS(dest='fluid', sources=None, rho0=rho0, c0=c0, gamma=7.0),
                                 TaitEOS(dest='bed', sources=None, rho0=rho0, c0=c0, gamma=7.0)]),
                Group(equations=[ContinuityEquation(dest='fluid', sources=['fluid', 'bed']),
                                 ContinuityEquation(dest='bed', sources=['fluid']),
                                 MomentumEquation(dest='fluid', sources=['fluid', 'bed'], c0=c0, alpha=0.1, beta=0.0),
                                 XSPHCorrection(dest='fluid', sources=['fluid'], eps=0.1)]),
            ]
    return Impact


def make_app(problem, valid_gids):
    if problem == 'drop':
        from pysph.examples.elliptical_drop import EllipticalDrop as Base
    elif problem == 'cavity':
        from pysph.examples.cavity import LidDrivenCavity as Base
    elif problem in ('tg', 'tg_gtvf'):
        from pysph.examples.taylor_green import TaylorGreen as Base
    elif problem == 'adapth':
        Base = _adaptive_h_app(_NX[0])
    elif problem == 'impact':
        Base = _impact_app(_NX[0])
    elif problem == 'sod':
        # 1-D gas dynamics in a mirror domain, variable smoothing length
        from pysph.examples.gas_dynamics.sod_shocktube import SodShockTube as Base
    else:
        raise ValueError(problem)

    class App(Base):
        def create_particles(self):
            return _stamp(Base.create_particles(self), valid_gids)

        def post_process(self, *a, **k):
            pass
    App.__name__ = 'Verif_' + problem
    return App(fname='verif_' + problem)


_NX = [8]


def problem_args(problem, nx):
    _NX[0] = int(nx)
    if problem in ('adapth', 'impact'):
        return []
    if problem == 'drop':
        return ['--nx', str(nx)]
    if problem == 'cavity':
        return ['--nx', str(nx)]
    if problem == 'tg':
        return ['--nx', str(nx), '--scheme', 'tvf']
    if problem == 'tg_gtvf':
        # the GTVF integrator makes its first evaluation of a step without refreshing the neighbours itself
        return ['--nx', str(nx), '--scheme', 'gtvf']
    if problem == 'sod':
        return ['--nl', str(nx), '--scheme', 'mpm']
    raise ValueError(problem)
