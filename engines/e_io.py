"""E-IO: inlet / outlet zones over many updates (C16).

Real: InletOutletManager subclasses of the five shipped families (set-up of the
particle arrays, ghost creation, zone lengths), InletBase / OutletBase with their
IOEvaluate evaluators (generated code, compiled once), ParticleArray.
Fake: the integrator -- the simulator advects inlet, fluid and outlet particles
with a drawn velocity field and calls update(t, dt, stage).
Model: three token sets with the documented transfer rules.
"""
import importlib
import math

import numpy as np

from vsim.choices import digest
from vsim.runner import InvalidScenario

NAME = 'E-IO'
CRASHY = False
RUN_TIMEOUT = 120
NO_SHRINK = {'family', 'dim', 'dir'}
FAMILIES = ['donothing', 'mirror', 'hybrid', 'characteristic', 'mod_donothing']
DIRS = {1: [[1, 0, 0], [-1, 0, 0]],
        2: [[1, 0, 0], [-1, 0, 0], [0, 1, 0], [0, -1, 0], [0.6, 0.8, 0], [-0.8, 0.6, 0]],
        3: [[1, 0, 0], [0, 0, 1], [0, -1, 0], [0.6, 0, 0.8], [2.0 / 3, 2.0 / 3, 1.0 / 3]]}

PROPS = {
    'C16': dict(
        rule=('one run = a zone geometry (family, dim, flow direction, spacing, zone lengths, ghost inlet or not, props_to_copy) and '
              '<= 120 advect-then-update steps with a drawn velocity history (uniform / sheared / reversing, several particles '
              'crossing in one step, particles landing within 1e-6 of an interface); after every update the three arrays are compared '
              'with the token model; non-trivial = at least one particle entered or left the fluid; distinct = digest of geometry and '
              'the per-step (entered, left, deleted) counts'),
        sim_unit='update calls',
        components=dict(real=['pysph/sph/bc/inlet_outlet_manager.py InletOutletManager/InletBase/OutletBase/IOEvaluate',
                              'pysph/sph/bc/*/simple_inlet_outlet.py (array set-up of each family)', 'SPHEvaluator + generated code',
                              'ParticleArray'],
                        fake=['integrator: the simulator advects the particles and calls update(t, dt, stage)']),
        assumptions=['displacement per update below one zone length and below the fluid length',
                     'particles within 1e-9 of the code\'s own 1e-6 interface threshold may go either way',
                     'an outlet particle beyond the far end is deleted by the end of the NEXT active update (it carries the fluid\'s zone id '
                     'for one update when it enters already beyond the end)'],
        quick=dict(runs=3000, budget_s=80),
        thorough=dict(runs=200000, budget_s=1800),
    ),
}
PROBES = {'C16': ['several_crossing_in_one_update', 'crossing_and_returning', 'within_1e-6_of_plane', 'entered_outlet_beyond_far_end',
                  'inactive_stage', 'empty_fluid', 'ghost_inlet', 'props_to_copy_subset', 'fluid_backflow_into_inlet_zone',
                  'outlet_particle_deleted', 'inlet_recycled', 'ghost_outlet', 'inlet_particle_beyond_upstream_end',
                  'zone_name_contains_other_zone_name', 'manager_used_before_with_other_zone_lengths', 'default_update_classes',
                  'more_inlets_than_outlets', 'array_drained_to_empty', 'lb_props_recorded_before_io_properties',
                  'ghost_tagged_particles_in_the_fluid']}


# array names: the default ones, and sets in which one zone's name is a suffix / prefix of another's (zone bookkeeping is keyed by name)
NAME_SETS = [['inlet', 'fluid', 'outlet'], ['inlet', 'fluid', 'out_inlet'], ['outlet2', 'fluid', 'outlet']]


def prepare(prop, tier):
    from vsim import build
    build.activate()
    import pysph.sph.bc.inlet_outlet_manager  # noqa
    import pysph.tools.sph_evaluator  # noqa
    # compile the evaluators once (in a child, so that this process never runs generated code)
    from vsim import runner
    import sys
    me = sys.modules[__name__]
    for fam in ('donothing',):
        for dim in (1, 2):
            sc = dict(family=fam, dim=dim, dir=DIRS[dim][0], dx=0.1, n_in=3, n_fluid=5, n_out=3, rows=1, ghost=1, props_to_copy=None,
                      steps=[[0.5, 0.0, 2]] * 3, stamp=1)
            kind, val = runner.run_isolated(me, sc, prop, timeout=600)
            if kind != 'ok':
                raise RuntimeError('warm-up run failed: %s %s' % (kind, str(val)[-800:]))


def gen(t, prop, tier):
    dim = t.wchoice([(1, 3), (2, 5), (3, 2)])
    fam = t.choice(FAMILIES)
    d = t.choice(DIRS[dim])
    dx = t.choice([0.1, 0.05, 0.25, 1.0])
    n_in = t.choice([1, 2, 3, 5])
    n_out = t.choice([1, 2, 3, 5])
    n_fluid = t.choice([3, 4, 6, 10])
    rows = 1 if dim == 1 else t.choice([1, 2, 3])
    steps = []
    nsteps = t.choice([3, 10, 30, 60, 120])
    style = t.wchoice([('uniform', 3), ('varying', 3), ('reversing', 2), ('threshold', 2)])
    for k in range(nsteps):
        if style == 'uniform':
            s = 0.4
        elif style == 'varying':
            s = t.choice([0.05, 0.3, 0.5, 0.9, 0.99, 1.0, 1.7, 2.5])
        elif style == 'reversing':
            s = t.choice([0.5, 0.8, -0.3, -0.6, 0.2, 1.2])
        else:
            s = t.choice([0.5, 1.0, 0.25, 0.75, 0.5 + 1e-6 / dx, 0.5 - 1e-6 / dx, 0.5 + 1e-7, 1.0 - 1e-7])
        shear = t.choice([0.0, 0.0, 0.3, -0.5]) if rows > 1 else 0.0
        steps.append([s, shear, t.wchoice([(2, 8), (1, 2)])])
    # keep every displacement below the zone lengths / fluid length
    lim = 0.95 * min(n_in, n_fluid - 1)
    for st in steps:
        st[0] = max(-lim, min(lim, st[0]))
    ptc = None
    if t.bool(0.4):
        ptc = ['x', 'y', 'z', 'u', 'h', 'm', 'token'] + [p for p in ['rho', 'p', 'v', 'w', 'uhat'] if t.bool(0.5)]
    sc = dict(family=fam, dim=dim, dir=d, dx=dx, n_in=n_in, n_fluid=n_fluid, n_out=n_out, rows=rows,
              ghost=int(t.bool(0.5)), out_ghost=int(t.bool(0.5)), fluid_empty=int(t.bool(0.08)), props_to_copy=ptc, steps=steps, stamp=1,
              origin=[t.choice([0.0, 1.0, -3.0]), t.choice([0.0, 2.0]), 0.0])
    sc['names'] = list(NAME_SETS[t.wchoice([(0, 7), (1, 2), (2, 1)])])
    if t.bool(0.2):
        sc['prelife'] = [t.choice([1, 2, 3, 5, 7]), t.choice([1, 2, 3, 5, 7])]
    elif t.bool(0.2):
        sc['extra_inlet'] = t.choice([1, 2, 3])
    if not (sc['out_ghost'] and fam == 'mirror') and t.bool(0.25):
        sc['default_cls'] = t.choice([1, 2])
    sc['early_lb_props'] = int(t.bool(0.25))
    sc['bystanders'] = t.choice([1, 2, 3]) if (dim > 1 and t.bool(0.2)) else 0
    return sc


def sig_of(sc):
    return dict(family=sc.get('family'), dim=sc.get('dim'))


def _tokens(pa):
    return pa.get('token', only_real_particles=False).astype(np.int64).tolist()


def _records(pa, props=None):
    n = pa.get_number_of_particles()
    out = []
    cols = {p: a.get_npy_array() for p, a in pa.properties.items() if props is None or p in props}
    for i in range(n):
        r = {}
        for p, c in cols.items():
            s = len(c) // n if n else 1
            r[p] = tuple(c[i * s:(i + 1) * s].tolist())
        out.append(r)
    return out


def execute(sc, prop):
    from pysph.base.utils import get_particle_array
    from pysph.base.kernels import QuinticSpline
    from pysph.sph.bc.inlet_outlet_manager import InletInfo, OutletInfo
    try:
        fam = sc['family']
        dim = int(sc['dim'])
        d = np.array([float(v) for v in sc['dir']])
        dx = float(sc['dx'])
        n_in, n_fluid, n_out, rows = int(sc['n_in']), int(sc['n_fluid']), int(sc['n_out']), int(sc['rows'])
        steps = sc.get('steps', [])
        assert fam in FAMILIES and dim in (1, 2, 3) and dx > 0 and n_in >= 1 and n_out >= 1 and n_fluid >= 2 and 1 <= rows <= 4
        assert abs(np.linalg.norm(d) - 1.0) < 1e-12 and isinstance(steps, list)
        if dim < 3:
            assert d[2] == 0
        if dim < 2:
            assert d[1] == 0
    except Exception as e:
        raise InvalidScenario(repr(e))
    mod = importlib.import_module('pysph.sph.bc.%s.simple_inlet_outlet' % fam)
    # Group names come from a process-global counter and appear in the generated text: restart it so that every run
    # generates (and re-uses) the same programs and the run does not depend on what the worker executed before
    import pysph.sph.equation as _EQ
    _EQ.group_counter = _EQ._counter()
    viol = []
    probes = {}

    def probe(n, k=1):
        probes[n] = probes.get(n, 0) + k

    def violate(inv, detail, **sig):
        if len(viol) < 4:
            s = sig_of(sc)
            s.update(sig)
            viol.append(dict(invariant=inv, detail=detail, sig=s))
    origin = np.array([float(v) for v in (sc.get('origin') or [0, 0, 0])])
    for a in range(dim, 3):
        origin[a] = 0.0
    # a lateral direction for rows
    if dim == 1:
        lat = np.zeros(3)
    else:
        lat = np.array([-d[1], d[0], 0.0]) if (abs(d[0]) + abs(d[1])) > 0 else np.array([1.0, 0.0, 0.0])
        lat = lat / np.linalg.norm(lat)
    ref_in = origin.copy()
    ref_out = origin + n_fluid * dx * d
    n_inlet_normal = -d          # outward normal of the fluid at the inlet interface
    tok = [1]

    def make(name, along):
        pts = []
        for a in along:
            for r in range(rows):
                pts.append(origin + a * d + (r - (rows - 1) / 2.0) * dx * lat)
        pts = np.array(pts, dtype=float).reshape(len(pts), 3)
        n = len(pts)
        toks = np.arange(tok[0], tok[0] + n, dtype=float)
        tok[0] += n
        if n == 0:
            pa = get_particle_array(name=name, x=np.zeros(0), y=np.zeros(0), z=np.zeros(0), h=np.zeros(0), m=np.zeros(0),
                                    rho=np.zeros(0), u=np.zeros(0), v=np.zeros(0), w=np.zeros(0), p=np.zeros(0))
            return pa, toks
        pa = get_particle_array(name=name, x=pts[:, 0].copy(), y=pts[:, 1].copy(), z=pts[:, 2].copy(), h=np.ones(n) * dx * 1.2,
                                m=np.ones(n) * dx ** dim, rho=np.ones(n), u=np.ones(n) * d[0], v=np.ones(n) * d[1], w=np.ones(n) * d[2],
                                p=toks * 0.5)
        return pa, toks
    names = sc.get('names') or NAME_SETS[0]
    if names not in NAME_SETS:
        raise InvalidScenario('names')
    if names != NAME_SETS[0]:
        probe('zone_name_contains_other_zone_name')
    inlet, tin = make(names[0], [-(k + 0.5) * dx for k in range(n_in)])
    fluid, tfl = make(names[1], [] if sc.get('fluid_empty') else [(k + 0.5) * dx for k in range(n_fluid)])
    outlet, tou = make(names[2], [(n_fluid + k + 0.5) * dx for k in range(n_out)])
    if sc.get('early_lb_props'):
        # the load-balancing property list was recorded when the arrays were created (it has nothing to do with inlets)
        for pa_ in (inlet, fluid, outlet):
            pa_.set_lb_props(list(pa_.properties.keys()))
        probe('lb_props_recorded_before_io_properties')
    ptc = sc.get('props_to_copy')
    if ptc is not None:
        if not (isinstance(ptc, list) and all(isinstance(p, str) for p in ptc) and {'x', 'y', 'z', 'token'} <= set(ptc)):
            raise InvalidScenario('props_to_copy')
        probe('props_to_copy_subset')
    has_ghost = bool(sc.get('ghost'))
    InletCls = importlib.import_module('pysph.sph.bc.%s.inlet' % fam).Inlet
    OutletCls = importlib.import_module('pysph.sph.bc.%s.outlet' % fam).Outlet
    out_ghost = bool(sc.get('out_ghost')) and fam == 'mirror'
    # the update classes may be left at their documented defaults (the base classes) instead of the family's classes
    dflt = int(sc.get('default_cls') or 0)
    if dflt not in (0, 1, 2) or (dflt and out_ghost):
        raise InvalidScenario('default_cls')
    ikw = {} if dflt == 2 else dict(update_cls=InletCls)
    okw = {} if dflt in (1, 2) else dict(update_cls=OutletCls)
    if dflt:
        probe('default_update_classes')
    iinfo = InletInfo(pa_name=names[0], normal=[float(v) for v in n_inlet_normal], refpoint=[float(v) for v in ref_in], has_ghost=has_ghost,
                      **ikw)
    oinfo = OutletInfo(pa_name=names[2], normal=[float(v) for v in d], refpoint=[float(v) for v in ref_out], has_ghost=out_ghost,
                       props_to_copy=ptc, **okw)
    # optionally a second, idle inlet far upstream (its particles never move): the manager then holds more inlets than outlets
    inlet_b = iinfo_b = None
    n_b = int(sc.get('extra_inlet') or 0)
    if n_b:
        if not 1 <= n_b <= 6:
            raise InvalidScenario('extra_inlet')
        off = 1000.0
        inlet_b, tinb = make('idle_zone', [-(off + k + 0.5) * dx for k in range(n_b)])
        iinfo_b = InletInfo(pa_name='idle_zone', normal=[float(v) for v in n_inlet_normal], refpoint=[float(v) for v in (origin - off * dx * d)],
                            has_ghost=False, **ikw)
        probe('more_inlets_than_outlets')
    iom = mod.SimpleInletOutlet(fluid_arrays=[names[1]], inletinfo=[iinfo] + ([iinfo_b] if iinfo_b is not None else []), outletinfo=[oinfo])
    arrays = {names[0]: inlet, names[1]: fluid, names[2]: outlet}
    if inlet_b is not None:
        arrays['idle_zone'] = inlet_b
    ghost = None
    if has_ghost:
        ghost = iom.create_ghost(inlet, inlet=True)
        arrays[ghost.name] = ghost
        probe('ghost_inlet')
    oghost = None
    if out_ghost:
        oghost = iom.create_ghost(outlet, inlet=False)
        arrays[oghost.name] = oghost
        probe('ghost_outlet')
    for pa, toks in ((inlet, tin), (fluid, tfl), (outlet, tou)) + (((inlet_b, tinb),) if inlet_b is not None else ()):
        iom.add_io_properties(pa, None)
        pa.add_property('token', type='double', data=toks)
        pa.add_property('sv', type='double', stride=3, data=np.repeat(toks, 3) + np.tile([0.0, 0.25, 0.5], len(toks)))
    if oghost is not None:
        iom.add_io_properties(oghost, None)
        oghost.add_property('token', type='double', data=tou.copy())
        oghost.add_property('sv', type='double', stride=3, data=np.repeat(tou, 3) + np.tile([0.0, 0.25, 0.5], len(tou)))
        for p in outlet.properties:
            if p not in oghost.properties:
                oghost.add_property(p, type=outlet.properties[p].get_c_type(), stride=outlet.stride.get(p, 1))
    if ptc is not None:
        for p in ptc:
            if p not in fluid.properties:
                raise InvalidScenario('props_to_copy names an unknown property')
    iom.update_dx(dx)
    iom.setup_iom(dim, QuinticSpline(dim=dim))
    iom.active_stages = [2]
    pre = sc.get('prelife')
    if pre is not None:
        # the same manager and zone-info objects were used before with zones of other lengths (a previous resolution / a restart)
        try:
            pn_in, pn_out = int(pre[0]), int(pre[1])
            assert 1 <= pn_in <= 8 and 1 <= pn_out <= 8
        except Exception:
            raise InvalidScenario('prelife')
        p_in, ptin = make(names[0], [-(k + 0.5) * dx for k in range(pn_in)])
        p_out, ptou = make(names[2], [(n_fluid + k + 0.5) * dx for k in range(pn_out)])
        prev = {names[0]: p_in, names[1]: fluid, names[2]: p_out}
        for pa, toks in ((p_in, ptin), (p_out, ptou)):
            iom.add_io_properties(pa, None)
            pa.add_property('token', type='double', data=toks)
            pa.add_property('sv', type='double', stride=3, data=np.repeat(toks, 3) + np.tile([0.0, 0.25, 0.5], len(toks)))
        if has_ghost:
            g0 = iom.create_ghost(p_in, inlet=True)
            prev[g0.name] = g0
        if out_ghost:
            g1 = iom.create_ghost(p_out, inlet=False)
            iom.add_io_properties(g1, None)
            for p in p_out.properties:
                if p not in g1.properties:
                    g1.add_property(p, type=p_out.properties[p].get_c_type(), stride=p_out.stride.get(p, 1))
            prev[g1.name] = g1
        iom.get_inlet_outlet(prev)
        probe('manager_used_before_with_other_zone_lengths')
    if pre is not None and inlet_b is not None:
        raise InvalidScenario('prelife with an extra inlet')
    ios = iom.get_inlet_outlet(arrays)
    inlet_io, outlet_io = ios[0], ios[-1]
    idle_io = ios[1] if inlet_b is not None else None
    Lin = iinfo.length
    Lout = oinfo.length
    if abs(Lin - n_in * dx) > 1e-9 * max(1.0, Lin) or abs(Lout - n_out * dx) > 1e-9 * max(1.0, Lout):
        violate('zone-length', 'zone lengths computed as %r / %r, expected %r / %r' % (Lin, Lout, n_in * dx, n_out * dx))
    if iinfo_b is not None and abs(iinfo_b.length - n_b * dx) > 1e-9 * max(1.0, iinfo_b.length):
        violate('zone-length', 'length of the second inlet zone computed as %r, expected %r' % (iinfo_b.length, n_b * dx))
    idle_before = _records(inlet_b) if inlet_b is not None else None
    # every updater works with the ghost array of its own zone, or with none
    for nm_, io_, want_ in (('inlet', inlet_io, ghost), ('outlet', outlet_io, oghost)) + ((('second inlet', idle_io, None),) if idle_io is not None else ()):
        if getattr(io_, 'ghost_pa', None) is not want_:
            violate('foreign-ghost-array', 'the updater of the %s zone was given the ghost array %r, expected %r' % (
                nm_, getattr(getattr(io_, 'ghost_pa', None), 'name', None), getattr(want_, 'name', None)))
    nby = int(sc.get('bystanders') or 0)
    if nby and dim > 1 and not sc.get('fluid_empty'):
        # ghost-tagged copies in the fluid array (what a periodic domain manager appends), lying past the outlet plane outside
        # the channel: they belong to nobody's zone and must never be moved or deleted
        if not 1 <= nby <= 4:
            raise InvalidScenario('bystanders')
        bp = np.array([origin + (n_fluid + 0.3 + 0.5 * k) * dx * d + (rows + 2.0) * dx * lat for k in range(nby)])
        btok = np.arange(tok[0], tok[0] + nby, dtype=float)
        tok[0] += nby
        fluid.add_particles(x=bp[:, 0], y=bp[:, 1], z=bp[:, 2], h=np.ones(nby) * dx * 1.2, m=np.ones(nby) * dx ** dim, rho=np.ones(nby),
                            u=np.ones(nby) * d[0], v=np.ones(nby) * d[1], w=np.ones(nby) * d[2], tag=np.ones(nby, dtype=np.int32) * 2,
                            token=btok, sv=np.repeat(btok, 3) + np.tile([0.0, 0.25, 0.5], nby))
        probe('ghost_tagged_particles_in_the_fluid')
    n_fluid0 = fluid.get_number_of_particles()
    entered = left = deleted_total = 0
    pattern = []
    pending_delete = set()     # tokens in the outlet beyond its far end at the end of the previous active update
    returned = set()
    was_past_outlet = set()
    THR = 1e-6
    BAND = 1e-9
    nupd = 0
    t_now = 0.0
    acc_s = 0.0
    for si, st in enumerate(steps[:150]):
        if viol:
            break
        try:
            s, shear, stage = float(st[0]), float(st[1]), int(st[2])
        except Exception:
            continue
        if not math.isfinite(s) or abs(s) > 0.95 * min(n_in, n_fluid - 1) + 1e-12:
            continue
        # the displacement accumulated since the last active update stays below one zone length
        lim_s = 0.95 * min(n_in, n_fluid - 1)
        if abs(acc_s + s * (1 + abs(shear))) > lim_s:
            continue
        acc_s = 0.0 if stage == 2 else acc_s + s * (1 + abs(shear))
        # ---- advect (the fake integrator)
        for pa in (inlet, fluid, outlet):
            n = pa.get_number_of_particles()
            if n == 0:
                continue
            pos = np.stack([pa.get(c, only_real_particles=False) for c in 'xyz'], axis=1)
            latc = (pos - origin) @ lat
            disp = s * dx * (1.0 + shear * latc / max(dx * rows, 1e-300))
            lim = 0.95 * dx * min(n_in, n_fluid - 1)
            disp = np.clip(disp, -lim, lim)
            for k, c in enumerate('xyz'):
                arr = pa.get(c, only_real_particles=False)
                arr += disp * d[k]
        if ghost is not None and ghost.get_number_of_particles():
            # the ghost inlet mirrors the inlet about the interface
            pos = np.stack([inlet.get(c, only_real_particles=False) for c in 'xyz'], axis=1)
            dd = (pos - ref_in) @ n_inlet_normal
            gp = pos - 2 * dd[:, None] * n_inlet_normal[None, :]
            for k, c in enumerate('xy'):
                ghost.get(c, only_real_particles=False)[:] = gp[:, k]
        # ---- the model's expectation from the state before the update
        b_in = _records(inlet)
        b_fl = _records(fluid)
        b_ou = _records(outlet)
        b_gh = _records(ghost) if ghost is not None else None

        def dist(r, ref, nrm):
            return (r['x'][0] - ref[0]) * nrm[0] + (r['y'][0] - ref[1]) * nrm[1] + (r['z'][0] - ref[2]) * nrm[2]
        if stage != 2:
            probe('inactive_stage')
        t_now += 1.0
        try:
            inlet_io.update(t_now, 1.0, stage)
            if idle_io is not None:
                idle_io.update(t_now, 1.0, stage)
            outlet_io.update(t_now, 1.0, stage)
        except Exception as e:
            import traceback
            violate('update-raised', 'update(stage=%d) raised %r\n%s' % (stage, e, traceback.format_exc()[-600:]))
            break
        nupd += 1
        a_in = _records(inlet)
        a_fl = _records(fluid)
        a_ou = _records(outlet)
        what = 'step %d (s=%r, stage=%d)' % (si, s, stage)
        for pa_ in (inlet, fluid, outlet):
            nloc_ = int((pa_.get('tag', only_real_particles=False) == 0).sum()) if pa_.get_number_of_particles() else 0
            if pa_.num_real_particles != nloc_ or pa_.get_number_of_particles(True) != nloc_:
                violate('real-particle-count', '%s: array %s reports %d real particles, it holds %d Local ones (%d in all)' % (
                    what, pa_.name, pa_.num_real_particles, nloc_, pa_.get_number_of_particles()))
            if pa_.get_number_of_particles() == 0:
                probe('array_drained_to_empty')
        if viol:
            break
        if inlet_b is not None:
            def _pos(recs):
                return sorted((r['token'], r['x'], r['y'], r['z']) for r in recs)
            if _pos(_records(inlet_b)) != _pos(idle_before):
                violate('idle-zone-changed', '%s: the particles of the idle second inlet (which never move) were changed' % what)
                break
        if stage != 2:
            def strip(recs):
                return [{p: v for p, v in r.items() if p not in ('ioid', 'disp')} for r in recs]
            if strip(a_in) != strip(b_in) or strip(a_fl) != strip(b_fl) or strip(a_ou) != strip(b_ou):
                violate('inactive-stage-changed-particles', '%s: an update at an inactive stage changed the arrays' % what)
            continue
        # inlet -> fluid
        must_emit, may_emit = [], []
        for r in b_in:
            dd = dist(r, ref_in, n_inlet_normal)
            if dd - Lin > THR:
                probe('inlet_particle_beyond_upstream_end')
            if dd <= THR - BAND:
                must_emit.append(r)
                may_emit.append(r)
            elif dd <= THR + BAND:
                may_emit.append(r)
                probe('within_1e-6_of_plane')
            if abs(dd - THR) < 1e-5 * max(dx, 1e-3) and abs(dd - THR) >= BAND:
                probe('within_1e-6_of_plane')
        # fluid -> outlet
        must_leave, may_leave = [], []
        for r in b_fl:
            if int(r['tag'][0]) != 0:
                continue        # not a real fluid particle: stays where it is
            dd = dist(r, ref_out, d)
            if dd > THR + BAND:
                must_leave.append(r)
                may_leave.append(r)
                if dd - Lout > THR:
                    probe('entered_outlet_beyond_far_end')
            elif dd > THR - BAND:
                may_leave.append(r)
                probe('within_1e-6_of_plane')
            if dist(r, ref_in, n_inlet_normal) > THR:
                probe('fluid_backflow_into_inlet_zone')
        # outlet deletion
        must_del, may_del = [], []
        for r in b_ou:
            dd = dist(r, ref_out, d) - Lout
            if dd > THR + BAND:
                must_del.append(r)
                may_del.append(r)
            elif dd > THR - BAND:
                may_del.append(r)
        if len(must_emit) > 1 or len(must_leave) > 1:
            probe('several_crossing_in_one_update')
        if not b_fl:
            probe('empty_fluid')
        for r in b_fl:
            tk = int(r['token'][0])
            if dist(r, ref_out, d) > THR and int(r['tag'][0]) == 0:
                was_past_outlet.add(tk)
        fl_before = {int(r['token'][0]): r for r in b_fl}
        fl_after = {}
        for r in a_fl:
            tk = int(r['token'][0])
            if tk in fl_after:
                violate('duplicated-in-fluid', '%s: token %d appears more than once in the fluid' % (what, tk))
                break
            fl_after[tk] = r
        if viol:
            break
        emit_must = {int(r['token'][0]) for r in must_emit}
        emit_may = {int(r['token'][0]) for r in may_emit}
        leave_must = {int(r['token'][0]) for r in must_leave}
        leave_may = {int(r['token'][0]) for r in may_leave}
        new_in_fluid = set(fl_after) - set(fl_before)
        gone_from_fluid = set(fl_before) - set(fl_after)
        if not emit_must <= new_in_fluid:
            violate('inlet-particle-not-emitted', '%s: inlet particle(s) %r crossed the interface but did not appear in the fluid'
                    % (what, sorted(emit_must - new_in_fluid)[:5]))
            break
        if not new_in_fluid <= emit_may:
            violate('particle-created', '%s: fluid gained particle(s) %r that did not cross the inlet interface'
                    % (what, sorted(new_in_fluid - emit_may)[:5]))
            break
        if not leave_must <= gone_from_fluid:
            violate('fluid-particle-not-moved-to-outlet', '%s: fluid particle(s) %r are past the outlet plane but still in the fluid'
                    % (what, sorted(leave_must - gone_from_fluid)[:5]))
            break
        if not gone_from_fluid <= leave_may:
            violate('particle-lost', '%s: fluid lost particle(s) %r that had not crossed the outlet plane'
                    % (what, sorted(gone_from_fluid - leave_may)[:5]))
            break
        # fluid particles that stayed are untouched
        for tk in set(fl_before) & set(fl_after):
            a, b = fl_after[tk], fl_before[tk]
            if any(a[p] != b[p] for p in b if p not in ('ioid', 'disp')):
                violate('fluid-particle-changed', '%s: fluid particle %d changed during the update' % (what, tk))
                break
        if viol:
            break
        # emitted copies carry the inlet particle's values
        in_before = {int(r['token'][0]): r for r in b_in}
        for tk in new_in_fluid:
            a, b = fl_after[tk], in_before[tk]
            bad = [p for p in b if p not in ('ioid', 'disp', 'tag') and a[p] != b[p]]
            if bad:
                violate('emitted-copy-differs', '%s: fluid copy of inlet particle %d differs in %r: %r vs %r'
                        % (what, tk, bad[:3], a[bad[0]], b[bad[0]]))
                break
        if viol:
            break
        # inlet: same particles, emitted ones recycled one zone length upstream
        in_after = {}
        for r in a_in:
            tk = int(r['token'][0])
            if tk in in_after:
                violate('duplicated-in-inlet', '%s: token %d twice in the inlet' % (what, tk))
            in_after[tk] = r
        if set(in_after) != set(in_before) or len(a_in) != len(b_in):
            violate('inlet-set-changed', '%s: inlet tokens %r -> %r' % (what, sorted(in_before)[:8], sorted(in_after)[:8]))
            break
        for tk, b in in_before.items():
            a = in_after[tk]
            exp = dict(b)
            if tk in new_in_fluid:
                probe('inlet_recycled')
                exp['x'] = (b['x'][0] + Lin * n_inlet_normal[0],)
                exp['y'] = (b['y'][0] + Lin * n_inlet_normal[1],)
                exp['z'] = (b['z'][0] + Lin * n_inlet_normal[2],)
            bad = [p for p in exp if p not in ('ioid', 'disp') and a[p] != exp[p]]
            if bad:
                violate('inlet-not-recycled-one-zone-length' if tk in new_in_fluid else 'inlet-particle-changed',
                        '%s: inlet particle %d has %s=%r, expected %r' % (what, tk, bad[0], a[bad[0]], exp[bad[0]]))
                break
        if viol:
            break
        if ghost is not None:
            a_gh = _records(ghost)
            if len(a_gh) != len(b_gh):
                violate('ghost-inlet-count', '%s: ghost inlet has %d particles, had %d' % (what, len(a_gh), len(b_gh)))
                break
            # companions follow their originals (same index): moved by -length*n for recycled ones
            toks_in = [int(r['token'][0]) for r in b_in]
            for i, (a, b) in enumerate(zip(a_gh, b_gh)):
                exp = (b['x'][0], b['y'][0])
                if i < len(toks_in) and toks_in[i] in new_in_fluid:
                    exp = (b['x'][0] - Lin * n_inlet_normal[0], b['y'][0] - Lin * n_inlet_normal[1])
                if (a['x'][0], a['y'][0]) != exp:
                    violate('ghost-companion-not-following', '%s: ghost of inlet particle #%d at %r, expected %r'
                            % (what, i, (a['x'][0], a['y'][0]), exp))
                    break
            if viol:
                break
        # outlet
        ou_before = {int(r['token'][0]): r for r in b_ou}
        ou_after = {}
        for r in a_ou:
            tk = int(r['token'][0])
            if tk in ou_after:
                violate('duplicated-in-outlet', '%s: token %d appears more than once in the outlet' % (what, tk))
            ou_after[tk] = r
        if viol:
            break
        del_must = {int(r['token'][0]) for r in must_del}
        del_may = {int(r['token'][0]) for r in may_del}
        new_in_outlet = set(ou_after) - set(ou_before)
        gone_from_outlet = set(ou_before) - set(ou_after)
        if new_in_outlet != gone_from_fluid:
            violate('outlet-gain-mismatch', '%s: fluid lost %r but the outlet gained %r' % (what, sorted(gone_from_fluid)[:6], sorted(new_in_outlet)[:6]))
            break
        if not gone_from_outlet <= del_may:
            violate('outlet-particle-lost', '%s: outlet lost particle(s) %r that are not beyond its far end'
                    % (what, sorted(gone_from_outlet - del_may)[:5]))
            break
        # deletion is due by the end of the next active update
        overdue = (pending_delete & set(ou_after)) & del_must
        if overdue:
            violate('outlet-particle-not-deleted', '%s: outlet particle(s) %r were beyond the far end at the previous update and still exist'
                    % (what, sorted(overdue)[:5]))
            break
        missing_now = del_must - gone_from_outlet
        if missing_now:
            violate('outlet-particle-not-deleted', '%s: outlet particle(s) %r are beyond the far end (evaluated this update) but were kept'
                    % (what, sorted(missing_now)[:5]))
            break
        if gone_from_outlet:
            probe('outlet_particle_deleted', len(gone_from_outlet))
        pending_delete = {tk for tk, r in ou_after.items() if dist(r, ref_out, d) - Lout > THR + BAND}
        for tk in new_in_outlet:
            a, b = ou_after[tk], fl_before[tk]
            for p in b:
                if p in ('ioid', 'disp', 'tag'):
                    continue
                if ptc is None or p in ptc:
                    if a[p] != b[p]:
                        violate('outlet-copy-differs', '%s: outlet copy of fluid particle %d has %s=%r, expected %r' % (what, tk, p, a[p], b[p]))
                        break
                else:
                    dv = (outlet.default_values[p],) * len(b[p])
                    if tuple(float(v) for v in a[p]) != tuple(float(v) for v in dv):
                        violate('outlet-copy-differs', '%s: outlet copy of fluid particle %d has un-copied %s=%r, expected the default %r'
                                % (what, tk, p, a[p], dv))
                        break
            if viol:
                break
        if viol:
            break
        for tk in set(ou_before) & set(ou_after):
            a, b = ou_after[tk], ou_before[tk]
            if any(a[p] != b[p] for p in b if p not in ('ioid', 'disp')):
                violate('outlet-particle-changed', '%s: outlet particle %d changed during the update' % (what, tk))
                break
        if viol:
            break
        if oghost is not None:
            gt = oghost.get('token', only_real_particles=False).astype(np.int64).tolist()
            ot = [int(r['token'][0]) for r in a_ou]
            if sorted(gt) != sorted(ot):
                violate('ghost-outlet-companions', '%s: ghost outlet holds tokens %r, outlet %r' % (what, sorted(gt)[:8], sorted(ot)[:8]))
                break
        entered += len(new_in_fluid)
        left += len(gone_from_fluid)
        deleted_total += len(gone_from_outlet)
        if fluid.get_number_of_particles() != n_fluid0 + entered - left:
            violate('fluid-count', '%s: fluid has %d particles, expected initial %d + entered %d - left %d'
                    % (what, fluid.get_number_of_particles(), n_fluid0, entered, left))
            break
        for r in a_fl:
            if int(r['token'][0]) in returned and dist(r, ref_in, n_inlet_normal) <= THR:
                probe('crossing_and_returning')
                returned.discard(int(r['token'][0]))
        pattern.append((len(new_in_fluid), len(gone_from_fluid), len(gone_from_outlet)))
        # re-stamp recycled inlet particles so that every emission is a distinct event
        if sc.get('stamp', 1):
            tk_arr = inlet.get('token', only_real_particles=False)
            p_arr = inlet.get('p', only_real_particles=False)
            for i in range(len(tk_arr)):
                if int(tk_arr[i]) in new_in_fluid:
                    tk_arr[i] = float(tok[0])
                    p_arr[i] = tok[0] * 0.5
                    tok[0] += 1
        # fluid particles that drifted back upstream of the inlet plane are remembered
        for r in a_fl:
            if dist(r, ref_in, n_inlet_normal) > THR:
                returned.add(int(r['token'][0]))
    shape = (fam, dim, [float(v) for v in d], n_in, n_fluid, n_out, rows, has_ghost, ptc is None, pattern)
    return dict(violations=viol, digest=digest(repr(shape)), nontrivial=(entered + left) > 0, faults={}, probes=probes,
                sim=float(nupd), inconclusive=False)
