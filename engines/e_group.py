"""E-GROUP: generated acceleration-evaluation programs refine a sequential
reference interpreter (C03).

Real: Group / MegaGroup, AccelerationEval, the code generator and templates, the
compiled program, LinkedListNNPS (sorted neighbours).
Reference model: a literal execution of the documented group semantics that
calls the SAME Python equation methods on copies of the arrays.
Programs: a fixed, tape-generated pool of group trees built from the
order-sensitive tracing equations of group_eqs.py; environment answers (particle
data, condition results, convergence thresholds, start/stop values, t, dt, the
simulated loop schedule) are drawn per run and do not change the generated text.
"""
import copy
import inspect
import os

import numpy as np

from vsim.choices import Tape, digest
from vsim.runner import InvalidScenario

NAME = 'E-GROUP'
CRASHY = False
RUN_TIMEOUT = 300
NO_SHRINK = {'program', 'prog', 'dim'}
POOL_SEED = 20250927
NPROG = {'quick': 17, 'thorough': 120}

PROPS = {
    'C03': dict(
        rule=('one run = one program of the pool (a group tree: flat groups, iterated groups, one level of sub-groups, real flag, '
              'numeric or named start/stop indices, pre/post/condition, update_nnps, several destinations and sources, equations with '
              'any subset of the hooks) executed on drawn particle data with scripted condition answers and convergence thresholds, '
              'serially and under a simulated loop schedule, compared exactly with the reference interpreter; non-trivial = at least '
              'one neighbour pair; distinct = digest of (program, answers, sizes)'),
        sim_unit='acceleration evaluations',
        components=dict(real=['pysph/sph/equation.py Group, acceleration_eval.py MegaGroup/AccelerationEval',
                              'acceleration_eval_cython.mako + helper (generated, compiled programs)', 'LinkedListNNPS (sort_gids)'],
                        simulated=['loop schedule through hook H1 (half of the runs)'],
                        model=['sequential reference interpreter of the documented group semantics calling the same Python equation methods']),
        assumptions=['programs come from a generated family of tracing equations, not arbitrary user code',
                     'neighbour order inside loop is fixed by sort_gids=True (the property promises no order among neighbours)',
                     'converged() is a stateless function of the array contents after a pass, so the number of converged() calls is not observed',
                     'no pair of particles within 1e-9 of the cut-off'],
        quick=dict(runs=6000, budget_s=90),
        thorough=dict(runs=400000, budget_s=2400),
    ),
}
PROBES = {'C03': ['stopped_by_max_iterations', 'converged_at_min_iterations', 'converged_in_between', 'condition_false', 'subgroup_condition_false',
                  'update_nnps_changed_neighbours', 'stop_idx_below_real', 'real_false_with_ghosts', 'named_start_stop',
                  'sim_schedule', 'several_destinations', 'python_callbacks_compared', 'periodic_domain', 'ghosts_refreshed',
                  'second_evaluation_after_update_particle_arrays', 'stage_0_of_a_multi_stage_problem',
                  'empty_array_as_source_or_destination']}


# ----------------------------------------------------------------------------
# the program pool
def _gen_eqs(t, arrays, allow_conv):
    from engines.group_eqs import NEEDS_SOURCE
    eqs = []
    n = t.int(1, 4)
    kinds = ['TInit', 'TLoop', 'TLoopNoSrc', 'TLoopAll', 'TInitPair', 'TPost', 'TFull', 'TReduce', 'TPyInit', 'TTime']
    for k in range(n):
        cls = t.choice(kinds)
        dest = t.choice(arrays)
        if cls in NEEDS_SOURCE:
            srcs = t.sample(arrays, t.int(1, len(arrays)))
        else:
            srcs = None
        eqs.append([cls, dest, srcs, float(t.int(1, 9))])
    if allow_conv:
        eqs.append([t.choice(['TConv', 'TConv', 'TConvSub']), t.choice(arrays), None, float(t.int(1, 9))])
        if t.bool(0.4):
            eqs.insert(0, ['TConv', t.choice(arrays), None, float(t.int(1, 9))])
    if not any(e[0] in ('TPost', 'TFull') for e in eqs) and t.bool(0.5):
        eqs.append(['TPost', eqs[0][1], None, float(t.int(1, 9))])
    return eqs


def _gen_group(t, arrays, depth=0):
    g = dict(label='L%d' % t.int(0, 2), real=int(t.bool(0.6)), update_nnps=int(t.bool(0.3)), iterate=0, min=0, max=1, pre=int(t.bool(0.4)), post=int(t.bool(0.4)),
             cond=int(t.bool(0.35)), start=0, stop=None, sub=None)
    if t.bool(0.3):
        g['start'] = t.choice([1, 2, 'c_start'])
    if t.bool(0.3):
        g['stop'] = t.choice([3, 5, 'c_stop', 0])
    if depth == 0 and t.bool(0.35):
        g['iterate'] = 1
        g['max'] = t.choice([2, 3, 4, 6])
        g['min'] = t.choice([0, 1, 2])
        if g['min'] > g['max']:
            g['min'] = g['max']
    if depth == 0 and t.bool(0.3):
        g['sub'] = [_gen_group(t, arrays, 1) for _ in range(t.int(1, 3))]
        if g['iterate']:
            # convergence is decided by the equations of the sub-groups
            g['sub'][-1]['eqs'].append(['TConv', t.choice(arrays), None, float(t.int(1, 9))])
        g['eqs'] = []
        # start/stop/real of a parent with sub-groups are not used by the template
        g['start'], g['stop'] = 0, None
    else:
        g['eqs'] = _gen_eqs(t, arrays, allow_conv=bool(g['iterate']))
    return g


def _move_group(t, arrays):
    # particles are moved only in a group of their own that ends with update_nnps: querying neighbours between a move
    # and the next update is not defined behaviour
    return dict(label='Lm', real=1, update_nnps=1, iterate=0, min=0, max=1, pre=0, post=0, cond=0, start=0, stop=None, sub=None,
                eqs=[['TMove', t.choice(arrays), None, 0.0]])


def _g(**kw):
    g = dict(label='L0', real=1, update_nnps=0, iterate=0, min=0, max=1, pre=0, post=0, cond=0, start=0, stop=None, sub=None, eqs=[])
    g.update(kw)
    return g


# a few hand-written programs at the head of the pool: combinations a small random pool may not contain
HANDCRAFTED = [
    # two iterated groups, the first with min_iterations > 0, the second with the default 0 (iteration state must not leak)
    dict(arrays=['f'], env=dict(thresh=[0.0, 0.0]), groups=[
        _g(iterate=1, min=3, max=5, pre=1, eqs=[['TInit', 'f', None, 2.0], ['TConv', 'f', None, 1.0]]),
        _g(label='L1', iterate=1, min=0, max=4, pre=1, post=1, eqs=[['TPost', 'f', None, 3.0], ['TConv', 'f', None, 2.0]]),
        _g(label='L2', iterate=1, min=2, max=2, eqs=[['TInit', 'f', None, 4.0], ['TConv', 'f', None, 3.0]])]),
    # numeric stop_idx reaching into the ghost particles with real=True; numeric start in the next group, default after it
    dict(arrays=['f', 'g'], env=dict(n=4, nghost=4), groups=[
        _g(stop=6, eqs=[['TInit', 'f', None, 1.0], ['TLoop', 'f', ['f', 'g'], 2.0], ['TPost', 'f', None, 3.0]]),
        _g(label='L1', start=2, stop=7, real=1, eqs=[['TFull', 'g', ['f'], 2.0]]),
        _g(label='L2', eqs=[['TReduce', 'f', None, 1.0], ['TPyInit', 'g', None, 2.0]]),
        _g(label='L3', stop=0, eqs=[['TInit', 'f', None, 5.0], ['TLoop', 'g', ['f'], 1.0], ['TReduce', 'f', None, 2.0],
                                    ['TPyInit', 'g', None, 1.0]])]),
    # named start/stop, real=False, several destinations and a conditional sub-group under an iterated conditional parent
    dict(arrays=['f', 'g'], groups=[
        _g(real=0, start='c_start', stop='c_stop', eqs=[['TInitPair', 'f', ['g', 'f'], 1.0], ['TLoopAll', 'g', ['f'], 2.0], ['TPost', 'g', None, 1.0]]),
        _g(label='L1', iterate=1, min=1, max=3, cond=1, pre=1, post=1, update_nnps=1, sub=[
            _g(label='La', cond=1, pre=1, eqs=[['TInit', 'f', None, 5.0], ['TLoopNoSrc', 'f', None, 1.0]]),
            _g(label='Lb', post=1, real=0, eqs=[['TFull', 'g', ['g', 'f'], 3.0], ['TConv', 'g', None, 1.0]])])]),
    # several convergence tests in one iterated group (all must hold, not any), on different destinations, with thresholds far apart
    dict(arrays=['f', 'g'], env=dict(thresh=[300000.0, 999000.0, 999000.0, 300000.0]), groups=[
        _g(iterate=1, min=0, max=6, pre=1, post=1, eqs=[['TConv', 'f', None, 1.0], ['TLoop', 'g', ['f'], 2.0], ['TConv', 'g', None, 3.0],
                                                         ['TPost', 'f', None, 2.0]]),
        _g(label='L1', iterate=1, min=1, max=5, eqs=[['TConvSub', 'g', None, 2.0], ['TConv', 'f', None, 5.0]])]),
    # iterated parent whose sub-groups each hold a convergence test, one of them conditional; the parent asks for the update
    dict(arrays=['f', 'g'], env=dict(thresh=[999000.0, 300000.0]), groups=[
        _g(iterate=1, min=1, max=5, update_nnps=1, pre=1, sub=[
            _g(label='La', eqs=[['TInit', 'f', None, 2.0], ['TConv', 'f', None, 1.0]]),
            _g(label='Lb', cond=1, real=0, pre=1, eqs=[['TLoop', 'g', ['f', 'g'], 2.0], ['TConv', 'g', None, 3.0], ['TPost', 'g', None, 1.0]])]),
        _g(label='L1', eqs=[['TReduce', 'f', None, 1.0], ['TReduce', 'g', None, 2.0]])]),
    # an iterated group with two loop pairs whose first pair is also the last pair of the group before it
    dict(arrays=['f', 'g', 'k'], env=dict(thresh=[0.0]), groups=[
        _g(eqs=[['TLoop', 'f', ['g'], 1.0]]),
        _g(label='L1', iterate=1, min=2, max=3, eqs=[['TLoop', 'f', ['g', 'k'], 2.0], ['TFull', 'k', ['f', 'g'], 1.0], ['TConv', 'f', None, 1.0]])]),
    # a parent that asks for the update, whose last sub-group asks for it too but is conditional; particles moved inside the parent
    dict(arrays=['f', 'g'], groups=[
        _g(update_nnps=1, sub=[
            _g(label='La', eqs=[['TMove', 'f', None, 0.0]]),
            _g(label='Lb', cond=1, update_nnps=1, eqs=[['TInit', 'g', None, 1.0]])]),
        _g(label='L1', eqs=[['TLoop', 'f', ['f', 'g'], 2.0], ['TLoop', 'g', ['f'], 1.0]])]),
    # a group without equations ahead of groups with a condition, pre and post
    dict(arrays=['f'], groups=[
        _g(cond=1, pre=1, eqs=[]),
        _g(label='L1', cond=1, pre=1, post=1, eqs=[['TInit', 'f', None, 2.0]]),
        _g(label='L2', cond=1, post=1, eqs=[['TPost', 'f', None, 3.0], ['TReduce', 'f', None, 1.0]])]),
    # destinations appearing first in later equations, no-source and sourced equations mixed, several py_initialize / reduce per group
    dict(arrays=['f', 'g', 'k'], groups=[
        _g(eqs=[['TLoopNoSrc', 'g', None, 1.0], ['TLoop', 'f', ['k', 'g'], 2.0], ['TPyInit', 'g', None, 3.0], ['TReduce', 'f', None, 1.0],
                ['TInit', 'k', None, 2.0], ['TReduce', 'g', None, 4.0], ['TPyInit', 'f', None, 2.0], ['TLoopAll', 'g', ['f'], 1.0],
                ['TPost', 'k', None, 1.0]]),
        _g(label='L1', real=0, start=1, eqs=[['TInitPair', 'k', ['f', 'k'], 1.0], ['TFull', 'f', ['g'], 2.0], ['TReduce', 'k', None, 3.0]])]),
]


def program(pid):
    if pid < len(HANDCRAFTED):
        p = HANDCRAFTED[pid]
        return dict(id=pid, arrays=list(p['arrays']), groups=p['groups'], env=p.get('env', {}))
    t = Tape(POOL_SEED + pid)
    arrays = ['f', 'g', 'k'][:t.wchoice([(1, 2), (2, 5), (3, 3)])]
    groups = []
    for _ in range(t.int(1, 4)):
        groups.append(_gen_group(t, arrays))
        if t.bool(0.35):
            groups.append(_move_group(t, arrays))
    return dict(id=pid, arrays=arrays, groups=groups)


def prepare(prop, tier):
    from vsim import build
    build.activate()
    import pysph.sph.acceleration_eval  # noqa
    import pysph.base.nnps  # noqa
    from vsim import runner
    import sys
    me = sys.modules[__name__]
    pids = []
    for pid in range(NPROG.get(tier, 10)):
        for sim in (0, 1):
            p = os.fork()
            if p == 0:
                try:
                    sc = _scenario(Tape(pid * 2 + sim + 1), pid, sim_override=sim)
                    k, v = runner.run_isolated(me, sc, prop, timeout=1200)
                    os._exit(0 if k in ('ok', 'invalid') else 1)
                finally:
                    os._exit(1)
            pids.append(p)
            if len(pids) >= 16:
                os.waitpid(pids.pop(0), 0)
    for p in pids:
        os.waitpid(p, 0)


def _gen_arrays(t, prog, dim):
    arrays = {}
    hint = prog.get('env') or {}
    for a, name in enumerate(prog['arrays']):
        n = t.choice([3, 5, 8, 12, 20])
        nghost = t.choice([0, 0, 2, 4])
        if 'n' in hint:
            n, nghost = int(hint['n']), int(hint['nghost'])
        elif a > 0 and t.bool(0.1):
            n, nghost = 0, 0        # an array that holds no particle (yet): still a legal source and destination
        pts = []
        for i in range(n + nghost):
            pts.append([round(0.1 * t.int(0, 12) + 0.013 * a + 0.0007 * i, 6), round(0.1 * t.int(0, 3), 6) if dim == 2 else 0.0,
                        float(t.int(1, 900000))])
        arrays[name] = dict(pts=pts, nreal=n, h=t.choice([0.06, 0.09, 0.13]), c_start=t.choice([0, 1, 2]),
                            c_stop=t.choice([2, 3, 4, 8, 30, 0]))
    return arrays


def _scenario(t, pid, sim_override=None):
    prog = program(pid)
    dim = t.choice([1, 1, 2])
    hint = prog.get('env') or {}
    arrays = _gen_arrays(t, prog, dim)
    nconv = sum(1 for g in _all_groups(prog) for e in g['eqs'] if e[0] in ('TConv', 'TConvSub'))
    return dict(program=pid, prog=prog, dim=dim, arrays=arrays, cond=[int(t.bool(0.7)) for _ in range(24)],
                thresh=(list(hint['thresh']) if ('thresh' in hint and t.bool(0.6)) else
                        [t.choice([0.0, 300000.0, 700000.0, 950000.0, 999000.0, 2000000.0]) for _ in range(max(1, nconv))]),
                t=t.choice([0.0, 0.125, 0.5, 1.0]), dt=t.choice([0.0625, 0.125, 0.25]), dx=t.choice([0.0, 0.02, 0.05]),
                periodic=int(t.bool(0.3)),
                sim=int(t.bool(0.5)) if sim_override is None else sim_override, sched_seed=t.int(0, 1 << 30), threads=t.choice([2, 3, 4]),
                # a second evaluation after update_particle_arrays() with new array objects (other sizes, values, named ranges)
                rebind=(_gen_arrays(t, prog, dim) if t.bool(0.25) else None), second_stage=int(t.bool(0.2)))


def _all_groups(prog):
    for g in prog['groups']:
        if g['sub']:
            for sg in g['sub']:
                yield sg
        else:
            yield g


def gen(t, prop, tier):
    pid = t.int(0, NPROG.get(tier, 10) - 1)
    return _scenario(t, pid)


def sig_of(sc):
    return dict(program=sc.get('program'), sim=bool(sc.get('sim')))


# ----------------------------------------------------------------------------
probe_empty = [False]


def make_arrays(sc, prog):
    from pysph.base.utils import get_particle_array
    out = []
    for name in prog['arrays']:
        spec = sc['arrays'].get(name)
        if not isinstance(spec, dict):
            raise InvalidScenario('array spec')
        try:
            pts = [[float(v) for v in r[:3]] for r in spec['pts']]
            nreal = int(spec['nreal'])
            h = float(spec['h'])
        except Exception:
            raise InvalidScenario('array data')
        n = len(pts)
        if not 0 <= nreal <= n or (n > 0 and nreal == 0) or not h > 0:
            raise InvalidScenario('array size')
        arr = np.array(pts, dtype=float).reshape(n, 3)
        if n == 0:
            probe_empty[0] = True
        tag = np.zeros(n, dtype=np.int32)
        tag[nreal:] = 2
        pa = get_particle_array(name=name, x=arr[:, 0].copy(), y=arr[:, 1].copy(), h=np.ones(n) * h, m=np.ones(n), tag=tag)
        for p in ('s', 'acc', 'b'):
            pa.add_property(p)
        pa.get('s', only_real_particles=False)[:] = np.floor(np.abs(arr[:, 2])) % 1000003.0
        pa.add_constant('total', 0.0)
        pa.add_constant('c0', 1.0)
        pa.add_constant('hist', np.zeros(64))
        pa.add_constant('hn', 0.0)
        pa.add_constant('c_start', float(int(spec.get('c_start', 0))))
        pa.add_constant('c_stop', float(int(spec.get('c_stop', n))))
        out.append(pa)
    return out


class Env(object):
    def __init__(self, sc):
        self.cond = [bool(v) for v in sc.get('cond', [])]
        self.ci = 0
        self.log = []
        self.thresh = [float(v) for v in sc.get('thresh', [])]
        self.ti = 0

    def next_cond(self, name, t, dt):
        v = self.cond[self.ci % len(self.cond)] if self.cond else True
        self.ci += 1
        self.log.append(('condition', name, t, dt, v))
        return v

    def next_thresh(self):
        v = self.thresh[self.ti % len(self.thresh)] if self.thresh else 500000.0
        self.ti += 1
        return v


def build_equation(e, env, dx):
    from engines.group_eqs import CLASSES
    cls, dest, srcs, c = e[0], e[1], e[2], float(e[3])
    if cls in ('TConv', 'TConvSub'):
        return CLASSES[cls](dest=dest, sources=srcs, c=c, thresh=env.next_thresh())
    if cls == 'TMove':
        return CLASSES[cls](dest=dest, sources=srcs, dx=dx)
    return CLASSES[cls](dest=dest, sources=srcs, c=c)


class _FalsyCondition(list):
    def __init__(self, env, name):
        list.__init__(self)
        self._env = env
        self._name = name

    def __call__(self, t, dt):
        return self._env.next_cond(self._name, t, dt)


def build_groups(prog, env, dx):
    """-> (pysph Group list, mirror structure for the interpreter)"""
    from pysph.sph.equation import Group
    out = []
    mirror = []

    def mk(g, name):
        eqs = [build_equation(e, env, dx) for e in g['eqs']] if not g['sub'] else None
        subs = None
        m = dict(spec=g, name=name, eqs=eqs, subs=None)
        kw = dict(real=bool(g['real']), update_nnps=bool(g['update_nnps']), iterate=bool(g['iterate']), max_iterations=int(g['max']),
                  min_iterations=int(g['min']), start_idx=g['start'], stop_idx=g['stop'], name=g.get('label', name))
        # `name` is only a profiling label and may repeat; the callbacks below are identified by their position in the tree
        if g['pre']:
            kw['pre'] = lambda name=name: env.log.append(('pre', name))
        if g['post']:
            kw['post'] = lambda name=name: env.log.append(('post', name))
        if g['cond']:
            if len(name) % 2:
                kw['condition'] = lambda t, dt, name=name: env.next_cond(name, t, dt)
            else:
                # any callable is a legal condition, also an object whose truth value is False (an empty list subclass)
                kw['condition'] = _FalsyCondition(env, name)
        if g['sub']:
            subs = [mk(sg, '%s_%d' % (name, i)) for i, sg in enumerate(g['sub'])]
            m['subs'] = [s[1] for s in subs]
            grp = Group(equations=[s[0] for s in subs], **kw)
        else:
            grp = Group(equations=eqs, **kw)
        return grp, m
    for i, g in enumerate(prog['groups']):
        grp, m = mk(g, 'G%d' % i)
        out.append(grp)
        mirror.append(m)
    return out, mirror


# ----------------------------------------------------------------------------
# the reference interpreter
class Interp(object):
    def __init__(self, arrays, env, t, dt, rs, dim, probe, domain_nnps=None):
        self.domain_nnps = domain_nnps
        self.pas = {pa.name: pa for pa in arrays}
        self.order = [pa.name for pa in arrays]
        self.env = env
        self.t = t
        self.dt = dt
        self.rs = rs
        self.dim = dim
        self.probe = probe
        self.nb = None
        self.update_nbrs(first=True)

    def col(self, pa, name):
        if name in pa.properties:
            return pa.get(name, only_real_particles=False)
        return pa.constants[name].get_npy_array()

    def update_nbrs(self, first=False):
        old = self.nb
        nb = {}
        if self.domain_nnps is not None and not first:
            # "update_nnps refreshes ghosts": the reference uses the real DomainManager on its own arrays (ghost creation
            # itself is C07's subject) and computes the neighbour lists by brute force
            self.domain_nnps.update_domain()
            self.probe('ghosts_refreshed')
        for d in self.order:
            for s in self.order:
                pd, ps = self.pas[d], self.pas[s]
                dx_, dy_, dh = (self.col(pd, c) for c in 'xyh')
                sx, sy, sh = (self.col(ps, c) for c in 'xyh')
                lst = []
                for i in range(len(dx_)):
                    d2 = (sx - dx_[i]) ** 2 + (sy - dy_[i]) ** 2
                    c2 = (self.rs * np.maximum(sh, dh[i])) ** 2
                    if (np.abs(d2 - c2) < 1e-9 * c2).any():
                        raise InvalidScenario('a pair sits on the cut-off')
                    lst.append(np.nonzero(d2 < c2)[0])
                nb[(d, s)] = lst
        self.nb = nb
        if old is not None:
            for k in nb:
                if len(nb[k]) != len(old[k]) or any(len(a) != len(b) or (a != b).any() for a, b in zip(nb[k], old[k])):
                    self.probe('update_nnps_changed_neighbours')
                    break

    def call(self, eq, meth, dpa, spa=None, d_idx=None, s_idx=None, nbrs=None):
        fn = getattr(eq, meth)
        args = []
        for p in inspect.signature(fn).parameters:
            if p == 'd_idx':
                args.append(d_idx)
            elif p == 's_idx':
                args.append(s_idx)
            elif p == 't':
                args.append(self.t)
            elif p == 'dt':
                args.append(self.dt)
            elif p == 'NBRS':
                args.append(nbrs)
            elif p == 'N_NBRS':
                args.append(len(nbrs))
            elif p.startswith('d_'):
                args.append(self.col(dpa, p[2:]))
            elif p.startswith('s_'):
                args.append(self.col(spa, p[2:]))
            else:
                raise InvalidScenario('unknown argument %s' % p)
        return fn(*args)

    @staticmethod
    def has(eq, meth):
        return hasattr(eq, meth)

    def do_group(self, m):
        g = m['spec']
        if g['pre']:
            self.env.log.append(('pre', m['name']))
        eqs = m['eqs']
        dests = []
        for e in eqs:
            if e.dest not in dests:
                dests.append(e.dest)
        if len(dests) > 1:
            self.probe('several_destinations')
        for dest in dests:
            dpa = self.pas[dest]
            all_eqs = [e for e in eqs if e.dest == dest]
            nosrc = [e for e in all_eqs if e.no_source]
            srcs = []
            for e in all_eqs:
                if not e.no_source:
                    for s in e.sources:
                        if s not in srcs:
                            srcs.append(s)
            start = g['start']
            if isinstance(start, str):
                start = int(self.col(dpa, start)[0])
                self.probe('named_start_stop')
            stop = g['stop']
            nreal = dpa.num_real_particles
            nall = dpa.get_number_of_particles()
            if stop is None:
                stop = nreal if g['real'] else nall
                if not g['real'] and nall > nreal:
                    self.probe('real_false_with_ghosts')
            elif isinstance(stop, str):
                stop = int(self.col(dpa, stop)[0])
            if stop > nall:
                raise InvalidScenario('stop index beyond the array')
            if g['stop'] is not None and stop < nreal:
                self.probe('stop_idx_below_real')
            rng = range(int(start), int(stop))
            for e in all_eqs:
                if self.has(e, 'py_initialize'):
                    e.py_initialize(dpa, self.t, self.dt)
            if any(self.has(e, 'initialize') for e in all_eqs):
                for d in rng:
                    for e in all_eqs:
                        if self.has(e, 'initialize'):
                            self.call(e, 'initialize', dpa, d_idx=d)
            if nosrc and any(self.has(e, 'loop') for e in nosrc):
                for d in rng:
                    for e in nosrc:
                        if self.has(e, 'loop'):
                            self.call(e, 'loop', dpa, d_idx=d)
            for s in srcs:
                spa = self.pas[s]
                es = [e for e in all_eqs if (not e.no_source) and s in e.sources]
                if any(self.has(e, 'initialize_pair') for e in es):
                    for d in rng:
                        for e in es:
                            if self.has(e, 'initialize_pair'):
                                self.call(e, 'initialize_pair', dpa, spa, d_idx=d)
                if any(self.has(e, 'loop') or self.has(e, 'loop_all') for e in es):
                    for d in rng:
                        nbrs = self.nb[(dest, s)][d]
                        for e in es:
                            if self.has(e, 'loop_all'):
                                self.call(e, 'loop_all', dpa, spa, d_idx=d, nbrs=nbrs)
                        if any(self.has(e, 'loop') for e in es):
                            for j in nbrs:
                                for e in es:
                                    if self.has(e, 'loop'):
                                        self.call(e, 'loop', dpa, spa, d_idx=d, s_idx=int(j))
            if any(self.has(e, 'post_loop') for e in all_eqs):
                for d in rng:
                    for e in all_eqs:
                        if self.has(e, 'post_loop'):
                            self.call(e, 'post_loop', dpa, d_idx=d)
            for e in all_eqs:
                if self.has(e, 'reduce'):
                    e.reduce(dpa, self.t, self.dt)
        if g['update_nnps']:
            self.update_nbrs()
        if g['post']:
            self.env.log.append(('post', m['name']))

    def converged(self, m):
        if m['subs'] is not None:
            vals = [self.converged(s) for s in m['subs']]
            return all(vals)
        vals = [e.converged() > 0 for e in m['eqs']]
        return all(vals)

    def run(self, mirror):
        for m in mirror:
            g = m['spec']
            if m['subs'] is None and not m['eqs']:
                continue
            if g['cond'] and not self.env.next_cond(m['name'], self.t, self.dt):
                self.probe('condition_false')
                continue
            it = 1
            while True:
                if m['subs'] is not None:
                    if g['pre']:
                        self.env.log.append(('pre', m['name']))
                    for sm in m['subs']:
                        if not sm['eqs']:
                            continue
                        if sm['spec']['cond'] and not self.env.next_cond(sm['name'], self.t, self.dt):
                            self.probe('subgroup_condition_false')
                            continue
                        self.do_group(sm)
                    if g['update_nnps']:
                        self.update_nbrs()
                    if g['post']:
                        self.env.log.append(('post', m['name']))
                else:
                    self.do_group(m)
                if not g['iterate']:
                    break
                if it >= g['min']:
                    if self.converged(m):
                        self.probe('converged_at_min_iterations' if it == max(1, g['min']) else 'converged_in_between')
                        break
                    if it == g['max']:
                        self.probe('stopped_by_max_iterations')
                        break
                it += 1


# ----------------------------------------------------------------------------
def execute(sc, prop):
    from pysph.base.kernels import CubicSpline
    from pysph.base.nnps import LinkedListNNPS
    from pysph.base.nnps_base import set_number_of_threads
    from pysph.sph.acceleration_eval import AccelerationEval
    from pysph.sph.sph_compiler import SPHCompiler
    from vsim import omp_sim
    try:
        pid = int(sc['program'])
        dim = int(sc['dim'])
        tt = float(sc.get('t', 0.0))
        dt = float(sc.get('dt', 0.1))
        dx = float(sc.get('dx', 0.0))
        assert 0 <= pid < 100000 and dim in (1, 2) and 0 <= dx <= 0.1
    except Exception as e:
        raise InvalidScenario(repr(e))
    prog = sc.get('prog') or program(pid)
    if not (isinstance(prog, dict) and isinstance(prog.get('groups'), list) and isinstance(prog.get('arrays'), list)):
        raise InvalidScenario('program spec')
    viol = []
    probes = {}

    def probe(n, k=1):
        probes[n] = probes.get(n, 0) + k

    def violate(inv, detail, **sig):
        if len(viol) < 3:
            s = sig_of(sc)
            s.update(sig)
            viol.append(dict(invariant=inv, detail=detail, sig=s))
    rs = 2.0
    probe_empty[0] = False
    arrays = make_arrays(sc, prog)
    if probe_empty[0]:
        probe('empty_array_as_source_or_destination')
    ref_arrays = copy.deepcopy(arrays)
    for pa_new, pa_old in zip(ref_arrays, arrays):
        pa_new.set_name(pa_old.name)
    # ---- reference
    periodic = bool(sc.get('periodic'))

    def mk_domain():
        if not periodic:
            return None
        from pysph.base.nnps import DomainManager
        return DomainManager(xmin=0.0, xmax=1.3, periodic_in_x=True)
    for pa in arrays:
        xs = pa.get('x', only_real_particles=False)
        if periodic and len(xs) and (xs.min() < 0 or xs.max() > 1.3):
            raise InvalidScenario('outside the periodic box')
    env_ref = Env(sc)
    _, mirror_ref = build_groups(prog, env_ref, dx)
    ref_nnps = None
    if periodic:
        probe('periodic_domain')
        ref_nnps = LinkedListNNPS(dim=dim, particles=ref_arrays, radius_scale=rs, domain=mk_domain())
    interp = Interp(ref_arrays, env_ref, tt, dt, rs, dim, probe, domain_nnps=ref_nnps)
    interp.run(mirror_ref)
    # second evaluation on new array objects (reference: the same Python equation objects go on with their state)
    arrays2 = ref_arrays2 = None
    if isinstance(sc.get('rebind'), dict):
        sc2 = dict(sc)
        sc2['arrays'] = sc['rebind']
        arrays2 = make_arrays(sc2, prog)
        ref_arrays2 = copy.deepcopy(arrays2)
        for pa_new, pa_old in zip(ref_arrays2, arrays2):
            pa_new.set_name(pa_old.name)
        for pa in arrays2:
            xs = pa.get('x', only_real_particles=False)
            if periodic and len(xs) and (xs.min() < 0 or xs.max() > 1.3):
                raise InvalidScenario('outside the periodic box')
        ref_nnps2 = LinkedListNNPS(dim=dim, particles=ref_arrays2, radius_scale=rs, domain=mk_domain()) if periodic else None
        interp2 = Interp(ref_arrays2, env_ref, tt + dt, dt, rs, dim, probe, domain_nnps=ref_nnps2)
        interp2.run(mirror_ref)
        probe('second_evaluation_after_update_particle_arrays')
    # ---- the generated program
    sim = bool(sc.get('sim'))
    for k in ('PYSPH_VERIF_SCHED', 'PYSPH_VERIF_SCHED_MODULE'):
        os.environ.pop(k, None)
    threads = max(1, min(8, int(sc.get('threads', 2))))
    if sim:
        os.environ['PYSPH_VERIF_SCHED'] = '1'
        os.environ['PYSPH_VERIF_SCHED_MODULE'] = 'vsim.omp_sim'
        set_number_of_threads(threads)
        omp_sim.SCHED.configure(threads, int(sc.get('sched_seed', 0)), 'mixed', watch=arrays, check_prob=0.3)
        probe('sim_schedule')
    else:
        set_number_of_threads(1)
    env = Env(sc)
    # groups made internally (MegaGroup) take their names from a process-global counter and the names appear in the generated
    # text: restart it so that a program always generates the same text
    import pysph.sph.equation as _EQ
    _EQ.group_counter = _EQ._counter()
    groups, mirror_real = build_groups(prog, env, dx)
    try:
        if sc.get('second_stage'):
            # the program is stage 0 of a multi-stage problem whose second stage uses the same equation objects in another
            # order (only stage 0 is evaluated)
            from pysph.sph.equation import Group, MultiStageEquations
            from pysph.sph.acceleration_eval import make_acceleration_evals
            objs = []
            for m in mirror_real:
                for mm in (m['subs'] if m['subs'] is not None else [m]):
                    objs.extend(mm['eqs'] or [])
            evals = make_acceleration_evals(arrays, MultiStageEquations([groups, [Group(equations=list(reversed(objs)))]]),
                                            CubicSpline(dim=dim))
            SPHCompiler(evals, None).compile()
            ae = evals[0]
            probe('stage_0_of_a_multi_stage_problem')
        else:
            ae = AccelerationEval(arrays, groups, CubicSpline(dim=dim))
            SPHCompiler(ae, None).compile()
        nnps = LinkedListNNPS(dim=dim, particles=arrays, radius_scale=rs, sort_gids=True, cache=bool(sc.get('sched_seed', 0) % 2),
                              domain=mk_domain())
        ae.set_nnps(nnps)
        ae.compute(tt, dt)
        if arrays2 is not None:
            if sim:
                omp_sim.SCHED.watch = list(arrays2)
            ae.update_particle_arrays(arrays2)
            nnps2 = LinkedListNNPS(dim=dim, particles=arrays2, radius_scale=rs, sort_gids=True, cache=bool(sc.get('sched_seed', 0) % 2),
                                   domain=mk_domain())
            ae.set_nnps(nnps2)
            ae.compute(tt + dt, dt)
    except Exception as e:
        import traceback
        violate('evaluation-raised', 'building / running the program raised %r\n%s' % (e, traceback.format_exc()[-600:]))
        return dict(violations=viol, digest=0, nontrivial=False, faults={}, probes=probes, sim=0.0, inconclusive=False)
    finally:
        if sim:
            omp_sim.SCHED.leave()
            for k in ('PYSPH_VERIF_SCHED', 'PYSPH_VERIF_SCHED_MODULE'):
                os.environ.pop(k, None)
    if sim:
        for wv in omp_sim.SCHED.violations:
            violate('write-outside-own-row', wv)
    # ---- compare
    pairs = list(zip(arrays, ref_arrays, [''] * len(arrays)))
    if arrays2 is not None:
        pairs += list(zip(arrays2, ref_arrays2, [' (second evaluation, after update_particle_arrays)'] * len(arrays2)))
    for pa, ref, note in pairs:
        for p in ('s', 'acc', 'b', 'x'):
            a = pa.get(p, only_real_particles=False)
            b = ref.get(p, only_real_particles=False)
            if len(a) != len(b) or not np.array_equal(a, b):
                i = int(np.nonzero(a != b)[0][0]) if len(a) == len(b) else -1
                violate('state-differs-from-reference',
                        'program %d, array %s%s property %s: particle %d is %r, the literal execution gives %r (%d of %d differ; real=%d)'
                        % (pid, pa.name, note, p, i, float(a[i]) if i >= 0 else None, float(b[i]) if i >= 0 else None,
                           int((a != b).sum()) if i >= 0 else -1, len(a), pa.num_real_particles), prop_name=p)
                break
        for c in ('total', 'c0', 'hist', 'hn'):
            a = pa.constants[c].get_npy_array()
            b = ref.constants[c].get_npy_array()
            if not np.array_equal(a, b):
                violate('constant-differs-from-reference', 'program %d, array %s%s constant %s is %r, the literal execution gives %r'
                        % (pid, pa.name, note, c, a[:8].tolist(), b[:8].tolist()), prop_name=c)
                break
    probe('python_callbacks_compared')
    if env.log != env_ref.log:
        k = next((i for i, (x, y) in enumerate(zip(env.log, env_ref.log)) if x != y), min(len(env.log), len(env_ref.log)))
        violate('callback-history-differs', 'program %d: pre/post/condition history differs at event %d: generated %r, literal %r (lengths %d / %d)'
                % (pid, k, env.log[k:k + 3], env_ref.log[k:k + 3], len(env.log), len(env_ref.log)))
    npairs = sum(len(a) for lst in interp.nb.values() for a in lst)
    shape = (pid, sim, [pa.get_number_of_particles() for pa in arrays], sc.get('cond', [])[:8], sc.get('thresh'), tt, dt)
    return dict(violations=viol, digest=digest(repr(shape)), nontrivial=npairs > 0,
                faults=({'simulated_loop_schedule': 1} if sim else {}), probes=probes, sim=1.0,
                inconclusive=False, stratum='program %d' % pid)
