"""Order-sensitive tracing equations for E-GROUP (C03/C04).

All arithmetic is exact in doubles: states are non-negative integers below
P = 1000003 updated by non-commutative maps s <- (k*s + ...) mod P, so the final
state of a particle encodes which hooks touched it, in which order, and what its
sources looked like at that moment.  Loops read only s_* source properties and
write only other d_* properties of their own row (race free by construction).

The classes live in a real module file because the code generator reads their
source text.
"""
from pysph.sph.equation import Equation
from compyle.api import declare

LOG = []     # python-level call history of the group callbacks (pre/post/condition); filled by the harness closures


class TInit(Equation):
    def __init__(self, dest, sources, c=1.0):
        self.c = c
        super(TInit, self).__init__(dest, sources)

    def initialize(self, d_idx, d_s):
        d_s[d_idx] = (31.0*d_s[d_idx] + self.c) % 1000003.0


class TLoop(Equation):
    def __init__(self, dest, sources, c=1.0):
        self.c = c
        super(TLoop, self).__init__(dest, sources)

    def loop(self, d_idx, s_idx, d_acc, s_s):
        d_acc[d_idx] = (7.0*d_acc[d_idx] + s_s[s_idx] + self.c) % 1000003.0


class TLoopNoSrc(Equation):
    def __init__(self, dest, sources, c=1.0):
        self.c = c
        super(TLoopNoSrc, self).__init__(dest, sources)

    def loop(self, d_idx, d_s):
        d_s[d_idx] = (17.0*d_s[d_idx] + self.c) % 1000003.0


class TLoopAll(Equation):
    def __init__(self, dest, sources, c=1.0):
        self.c = c
        super(TLoopAll, self).__init__(dest, sources)

    def loop_all(self, d_idx, d_b, s_s, NBRS, N_NBRS):
        i = declare('int')
        s_idx = declare('long')
        # the call itself counts, neighbours or not
        d_b[d_idx] = (3.0*d_b[d_idx] + 1.0) % 1000003.0
        for i in range(N_NBRS):
            s_idx = NBRS[i]
            d_b[d_idx] = (11.0*d_b[d_idx] + s_s[s_idx] + self.c) % 1000003.0


class TInitPair(Equation):
    def __init__(self, dest, sources, c=1.0):
        self.c = c
        super(TInitPair, self).__init__(dest, sources)

    def initialize_pair(self, d_idx, d_b):
        d_b[d_idx] = (5.0*d_b[d_idx] + self.c) % 1000003.0

    def loop(self, d_idx, s_idx, d_b, s_s):
        d_b[d_idx] = (3.0*d_b[d_idx] + s_s[s_idx]) % 1000003.0


class TPost(Equation):
    def __init__(self, dest, sources, c=1.0):
        self.c = c
        super(TPost, self).__init__(dest, sources)

    def post_loop(self, d_idx, d_s, d_acc, d_b):
        d_s[d_idx] = (13.0*d_s[d_idx] + d_acc[d_idx] + 2.0*d_b[d_idx] + self.c) % 1000003.0


class TFull(Equation):
    """every per-particle hook in one equation"""
    def __init__(self, dest, sources, c=1.0):
        self.c = c
        super(TFull, self).__init__(dest, sources)

    def initialize(self, d_idx, d_s, d_acc):
        d_s[d_idx] = (29.0*d_s[d_idx] + self.c) % 1000003.0
        d_acc[d_idx] = (2.0*d_acc[d_idx] + 1.0) % 1000003.0

    def initialize_pair(self, d_idx, d_b):
        d_b[d_idx] = (6.0*d_b[d_idx] + self.c + 1.0) % 1000003.0

    def loop_all(self, d_idx, d_b, s_s, NBRS, N_NBRS):
        i = declare('int')
        s_idx = declare('long')
        for i in range(N_NBRS):
            s_idx = NBRS[i]
            d_b[d_idx] = (19.0*d_b[d_idx] + s_s[s_idx]) % 1000003.0

    def loop(self, d_idx, s_idx, d_acc, s_s):
        d_acc[d_idx] = (23.0*d_acc[d_idx] + s_s[s_idx] + self.c) % 1000003.0

    def post_loop(self, d_idx, d_s, d_acc, d_b):
        d_s[d_idx] = (37.0*d_s[d_idx] + d_acc[d_idx] + d_b[d_idx]) % 1000003.0


class TReduce(Equation):
    def __init__(self, dest, sources, c=1.0):
        self.c = c
        super(TReduce, self).__init__(dest, sources)

    def post_loop(self, d_idx, d_s):
        d_s[d_idx] = (41.0*d_s[d_idx] + self.c) % 1000003.0

    def reduce(self, dst, t, dt):
        import numpy
        tot = float(numpy.sum(dst.get('s', only_real_particles=False)))
        dst.total[0] = (3.0*dst.total[0] + tot + self.c) % 1000003.0
        # python-level call history kept in a constant of the destination
        dst.hist[int(dst.hn[0]) % 64] = 1000.0 + self.c
        dst.hn[0] = dst.hn[0] + 1.0


class TPyInit(Equation):
    def __init__(self, dest, sources, c=1.0):
        self.c = c
        super(TPyInit, self).__init__(dest, sources)

    def py_initialize(self, dst, t, dt):
        dst.c0[0] = (3.0*dst.c0[0] + self.c + float(int(t*8.0)) + 100.0*float(int(dt*16.0))) % 1000003.0
        dst.hist[int(dst.hn[0]) % 64] = 2000.0 + self.c + 8.0*t + 1600.0*dt
        dst.hn[0] = dst.hn[0] + 1.0

    def initialize(self, d_idx, d_s, d_c0):
        d_s[d_idx] = (43.0*d_s[d_idx] + d_c0[0]) % 1000003.0


class TConv(Equation):
    """converges once any destination particle's state reaches thresh (a
    stateless function of the array contents after the pass)"""
    def __init__(self, dest, sources, c=1.0, thresh=500000.0):
        self.c = c
        self.thresh = thresh
        self.conv = 0.0
        super(TConv, self).__init__(dest, sources)

    def initialize(self, d_idx, d_s):
        self.conv = 0.0
        d_s[d_idx] = (47.0*d_s[d_idx] + self.c) % 1000003.0

    def post_loop(self, d_idx, d_s):
        if d_s[d_idx] >= self.thresh:
            self.conv = 1.0

    def converged(self):
        return self.conv


class TConvSub(TConv):
    """inherits converged() (and everything else) from TConv: an inherited convergence test counts like any other"""
    def post_loop(self, d_idx, d_s):
        if d_s[d_idx] >= self.thresh:
            self.conv = 1.0


class TMove(Equation):
    """moves destination particles so that a later update_nnps changes neighbours"""
    def __init__(self, dest, sources, dx=0.05):
        self.dx = dx
        super(TMove, self).__init__(dest, sources)

    def post_loop(self, d_idx, d_x, d_s):
        d_x[d_idx] = d_x[d_idx] + self.dx*((d_s[d_idx] % 3.0) - 1.0)


class TTime(Equation):
    def __init__(self, dest, sources, c=1.0):
        self.c = c
        super(TTime, self).__init__(dest, sources)

    def post_loop(self, d_idx, d_s, t, dt):
        d_s[d_idx] = (53.0*d_s[d_idx] + 8.0*t + 1600.0*dt + self.c) % 1000003.0


CLASSES = dict(TInit=TInit, TLoop=TLoop, TLoopNoSrc=TLoopNoSrc, TLoopAll=TLoopAll, TInitPair=TInitPair, TPost=TPost, TFull=TFull,
               TReduce=TReduce, TPyInit=TPyInit, TConv=TConv, TConvSub=TConvSub, TMove=TMove, TTime=TTime)
NEEDS_SOURCE = {'TLoop', 'TLoopAll', 'TInitPair', 'TFull'}
