"""E-DOM: periodic / mirror domains under move-then-update rounds (C07).

Real: DomainManager / CPUDomainManager (compiled, nnps_base.pyx), ParticleArray,
LinkedListNNPS (only as the owner of the domain, as in every application).
Model: real particles as records with identity; expected ghosts = for every
particle the product over flagged axes of {identity} u {image across the low
face if within the layer} u {image across the high face if within the layer},
minus the identity.  History dimension only.
"""
import itertools
import math

import numpy as np

from vsim.choices import digest
from vsim.runner import InvalidScenario

NAME = 'E-DOM'
CRASHY = True
RUN_TIMEOUT = 60
NO_SHRINK = {'dim', 'box', 'periodic', 'mirror', 'n_layers', 'radius_scale'}


def needs_isolation(sc):
    return False


PROPS = {
    'C07': dict(
        rule=('one run = a box with per-axis periodic/mirror flags, n_layers, copied-property subset, 1-3 particle arrays with '
              'identity-carrying typed/strided properties (particles inside, on faces, +-1 ulp off faces, outside by < one period, in '
              'corners) and <= 6 rounds of move-then-update; after every update the arrays are compared with the product model; '
              'non-trivial = some ghost expected; distinct = digest of flags, sizes and per-round ghost counts'),
        sim_unit='domain updates',
        components=dict(real=['pysph/base/nnps_base.pyx CPUDomainManager/DomainManager (compiled)', 'pysph/base/particle_array.pyx',
                              'LinkedListNNPS as owner of the domain'], fake=[],
                        model=['product model of periodic images and reflections (this file)']),
        assumptions=['layer thickness = n_layers * radius_scale * max h over all arrays (as documented), inclusive; particles within 1e-12 '
                     'relative of the layer boundary may go either way',
                     'each periodic length is at least 1.2 layer thicknesses; completeness is checked for images at one period only',
                     'copied-property subsets always contain x, y, z, h and the identity; mirror axes: particles stay inside the box'],
        quick=dict(runs=40000, budget_s=70),
        thorough=dict(runs=2000000, budget_s=1200),
    ),
}
PROBES = {'C07': ['corner_2_axes', 'corner_3_axes', 'both_low_and_high_layer', 'on_face', 'ulp_off_face', 'wrapped_particle',
                  'wrap_nearly_full_period', 'update_without_motion', 'empty_array', 'second_array_mirror', 'props_subset',
                  'mixed_periodic_mirror', 'band_particle', 'band_particle_with_edge_images', 'remote_tagged_particles', 'ghosts_of_an_earlier_manager_present', 'moved_through_add_property', 'variable_h', 'interacting_image_checked',
                  'particles_added_between_updates', 'particles_removed_between_updates', 'property_added_between_updates']}

NEWPROPS = {'ni': ('int', 1), 'nl': ('long', 1), 'nd': ('double', 1), 'nu': ('unsigned int', 1), 'ns': ('double', 3)}
NPT = {'double': np.float64, 'float': np.float32, 'int': np.int32, 'long': np.int64, 'unsigned int': np.uint32}
EXTRA = [('ident', 'long', 1), ('fv', 'float', 3), ('iv', 'int', 1), ('m9', 'double', 9), ('q', 'double', 1)]


def prepare(prop, tier):
    from vsim import build
    build.activate()
    import pysph.base.nnps  # noqa
    import pysph.base.utils  # noqa


def _ulp(x, k):
    for _ in range(abs(k)):
        x = math.nextafter(x, math.inf if k > 0 else -math.inf)
    return x


def gen(t, prop, tier):
    dim = t.wchoice([(1, 2), (2, 5), (3, 3)])
    box = []
    for a in range(3):
        lo = t.choice([0.0, -1.0, 0.5, -0.25, 10.0])
        L = t.choice([1.0, 2.0, 0.5, 1.5, 3.0])
        box += [lo, lo + L] if a < dim else [0.0, 0.0]
    kinds = []
    for a in range(3):
        if a < dim:
            kinds.append(t.wchoice([('p', 5), ('m', 3), ('n', 2)]))
        else:
            kinds.append('n')
    if all(k == 'n' for k in kinds):
        kinds[0] = t.choice(['p', 'm'])
    rs = t.choice([2.0, 2.0, 3.0, 1.0])
    n_layers = t.choice([1.0, 1.5, 2.0, 2.0, 3.0])
    Lmin = min(box[2 * a + 1] - box[2 * a] for a in range(dim))
    # layer = n_layers*rs*hmax must stay below Lmin/1.2
    hmax = (Lmin / 1.2) / (n_layers * rs) * t.choice([0.95, 0.5, 0.25, 0.1, 0.05])
    hvar = t.bool(0.4)
    narr = t.wchoice([(1, 4), (2, 4), (3, 2)])
    layer = n_layers * rs * hmax

    def coord(a):
        lo, hi = box[2 * a], box[2 * a + 1]
        if a >= dim:
            return 0.0
        L = hi - lo
        k = t.wchoice([('in', 6), ('lowlayer', 3), ('highlayer', 3), ('face', 2), ('ulp', 2), ('edge_of_layer', 2),
                       ('outside', 3 if kinds[a] == 'p' else 0)])
        if k == 'in':
            return lo + L * t.unit()
        if k == 'lowlayer':
            return lo + layer * t.unit()
        if k == 'highlayer':
            return hi - layer * t.unit()
        if k == 'face':
            return t.choice([lo, hi])
        if k == 'ulp':
            f = t.choice([lo, hi])
            d = t.choice([-1, 1, 2, -2])
            if kinds[a] == 'm':
                d = abs(d) if f == lo else -abs(d)
            return _ulp(f, d)
        if k == 'edge_of_layer':
            e = t.choice([lo + layer, hi - layer])
            return _ulp(e, t.choice([0, 1, -1]))
        return t.choice([lo - L * t.unit() * 0.999, hi + L * t.unit() * 0.999])

    ident = [1]

    def particle():
        h = hmax * (t.choice([1.0, 0.9, 0.5, 0.3]) if hvar else 1.0)
        return [coord(0), coord(1), coord(2), h, t.int(-3, 3) * 0.5, t.int(-3, 3) * 0.5, t.int(-3, 3) * 0.5]
    arrays = []
    for _ in range(narr):
        n = t.wchoice([(0, 1), (1, 2), (2, 2), (4, 3), (9, 3), (20, 2), (45, 1)])
        arrays.append(dict(pts=[particle() for _ in range(n)]))
    if not any(a['pts'] for a in arrays):
        arrays[0]['pts'] = [particle()]
    # the maximum h must really be hmax somewhere so that the layer is what the model expects (any value works; this
    # just keeps layers thick enough to matter)
    arrays[[i for i, a in enumerate(arrays) if a['pts']][0]]['pts'][0][3] = hmax
    pm = t.wchoice([('none', 4), ('list', 3), ('dict', 3)])
    names = [e[0] for e in EXTRA if e[0] != 'ident'] + ['u', 'v', 'w', 'm', 'rho', 'p']
    if pm == 'none':
        props = None
    elif pm == 'list':
        props = ['x', 'y', 'z', 'h', 'ident'] + [p for p in names if t.bool(0.5)]
    else:
        props = {('a%d' % i): ['x', 'y', 'z', 'h', 'ident'] + [p for p in names if t.bool(0.5)] for i in range(narr)}
    rounds = []
    for _ in range(t.choice([0, 1, 2, 3, 6])):
        if t.bool(0.2):
            rounds.append(dict(moves=[]))
            continue
        mv = []
        for _ in range(t.int(1, 10)):
            mv.append([t.int(0, narr - 1), t.int(0, 60), t.wchoice([('small', 5), ('big', 2), ('toface', 2), ('set', 2)]),
                       t.unit() - 0.5, t.unit() - 0.5, t.unit() - 0.5])
        rd = dict(moves=mv, vel=int(t.bool(0.3)), hchg=int(t.bool(0.15) and hvar), via_add_property=int(t.bool(0.15)))
        if t.bool(0.3):
            rd['add'] = [t.int(0, narr - 1), [particle() for _ in range(t.int(1, 6))]]
        if t.bool(0.15):
            rd['remove'] = [t.int(0, narr - 1), [t.int(0, 60) for _ in range(t.int(1, 4))]]
        if t.bool(0.2):
            rd['addprop'] = [t.int(0, narr - 1), t.choice(['ni', 'nl', 'nd', 'nu', 'ns'])]
        rounds.append(rd)
    earlier = int(t.bool(0.15))
    if t.bool(0.2):
        # some particles are Remote-tagged copies (what a parallel run holds): the domain manager treats them like real ones
        for a in arrays:
            for r in a['pts']:
                r.append(int(t.bool(0.3)))
    return dict(dim=dim, box=box, periodic=[int(k == 'p') for k in kinds], mirror=[int(k == 'm') for k in kinds],
                n_layers=n_layers, radius_scale=rs, props=props, arrays=arrays, rounds=rounds, hmax=hmax, earlier_manager=earlier)


def sig_of(sc):
    return dict(periodic=sc.get('periodic'), mirror=sc.get('mirror'), narrays=len(sc.get('arrays', [])), dim=sc.get('dim'))


# ----------------------------------------------------------------------------
def _cols(ids):
    ids = np.asarray(ids, dtype=np.int64)
    n = len(ids)
    return dict(ident=ids,
                fv=(np.repeat(ids, 3).astype(np.float32) + np.tile(np.arange(3, dtype=np.float32), n)),
                iv=(-3 * ids).astype(np.int32),
                m9=(np.repeat(ids, 9) * 10.0 + np.tile(np.arange(9.0), n)),
                q=ids * 0.5 + 0.25)


def _records(pa):
    n = pa.get_number_of_particles()
    cols = {p: a.get_npy_array() for p, a in pa.properties.items()}
    out = []
    for i in range(n):
        r = {}
        for p, c in cols.items():
            s = len(c) // n if n else 1
            r[p] = tuple(c[i * s:(i + 1) * s].tolist())
        out.append(r)
    return out


def execute(sc, prop):
    from pysph.base.utils import get_particle_array
    from pysph.base.nnps import DomainManager, LinkedListNNPS
    try:
        dim = int(sc['dim'])
        box = [float(v) for v in sc['box']]
        per = [bool(v) for v in sc['periodic']]
        mir = [bool(v) for v in sc['mirror']]
        n_layers = float(sc['n_layers'])
        rs = float(sc['radius_scale'])
        specs = sc['arrays']
        rounds = sc.get('rounds', [])
        assert dim in (1, 2, 3) and len(box) == 6 and len(per) == 3 and len(mir) == 3 and 1 <= len(specs) <= 3
        assert n_layers >= 1 and rs > 0
    except Exception as e:
        raise InvalidScenario(repr(e))
    for a in range(3):
        if (per[a] or mir[a]) and (a >= dim or per[a] and mir[a]):
            raise InvalidScenario('flags')
    if not any(per) and not any(mir):
        raise InvalidScenario('no flagged axis')
    L = [box[2 * a + 1] - box[2 * a] for a in range(3)]
    viol = []
    probes = {}

    def probe(n, k=1):
        probes[n] = probes.get(n, 0) + k

    def violate(inv, detail, **sig):
        if len(viol) < 4:
            s = sig_of(sc)
            s.update(sig)
            viol.append(dict(invariant=inv, detail=detail, sig=s))

    props = sc.get('props')
    narr = len(specs)
    if isinstance(props, dict):
        if sorted(props) != ['a%d' % i for i in range(narr)]:
            raise InvalidScenario('props dict')
    copy_lists = []
    for i in range(narr):
        pl = props if (props is None or isinstance(props, list)) else props['a%d' % i]
        if pl is not None:
            if not all(isinstance(p, str) for p in pl) or not set(['x', 'y', 'z', 'h', 'ident']) <= set(pl):
                raise InvalidScenario('props list')
            probe('props_subset')
        copy_lists.append(pl)
    next_id = 1
    particles = []
    allh = []
    for i, spec in enumerate(specs):
        rows = []
        rtags = []
        for r in spec.get('pts', []):
            try:
                rows.append([float(v) for v in r[:7]])
                rtags.append(int(r[7]) if len(r) > 7 else 0)
            except Exception:
                raise InvalidScenario('row')
            if len(rows[-1]) != 7 or not rows[-1][3] > 0 or not all(math.isfinite(v) for v in rows[-1]) or rtags[-1] not in (0, 1):
                raise InvalidScenario('row')
        # Local particles first, Remote-tagged ones (copies owned by another process) after them
        order = [k for k in range(len(rows)) if rtags[k] == 0] + [k for k in range(len(rows)) if rtags[k] == 1]
        rows = [rows[k] for k in order]
        rtags = [rtags[k] for k in order]
        if any(rtags):
            probe('remote_tagged_particles')
        n = len(rows)
        ids = list(range(next_id, next_id + n))
        next_id += n
        arr = np.array(rows, dtype=float).reshape(n, 7)
        for a in range(dim, 3):
            arr[:, a] = 0.0
        pa = get_particle_array(name='a%d' % i, x=arr[:, 0].copy(), y=arr[:, 1].copy(), z=arr[:, 2].copy(), h=arr[:, 3].copy(),
                                u=arr[:, 4].copy(), v=arr[:, 5].copy(), w=arr[:, 6].copy(),
                                m=np.ones(n) * 1.5, rho=np.ones(n) * 2.5, tag=np.array(rtags, dtype=np.int32))
        c = _cols(ids)
        for (p, ctype, stride) in EXTRA:
            pa.add_property(p, type=ctype, stride=stride, data=c[p] if n else None, default=7 if p == 'q' else 0)
        particles.append(pa)
        allh += arr[:, 3].tolist()
        if n == 0:
            probe('empty_array')
    if not allh:
        raise InvalidScenario('no particles')
    hmax0 = max(allh)
    for a in range(dim):
        if per[a] and L[a] < 1.2 * n_layers * rs * hmax0 * (1 - 1e-9):
            raise InvalidScenario('period shorter than 1.2 layers')
        if (per[a] or mir[a]) and not L[a] > 0:
            raise InvalidScenario('empty box')
    if len(set(allh)) > 1:
        probe('variable_h')
    if any(per) and any(mir):
        probe('mixed_periodic_mirror')
    # mirror axes: particles must be inside
    for pa in particles:
        for a, cname in enumerate('xyz'):
            if mir[a]:
                c = pa.get(cname, only_real_particles=False)
                if len(c) and (c.min() < box[2 * a] or c.max() > box[2 * a + 1]):
                    raise InvalidScenario('particle outside a mirror face')
            if per[a]:
                c = pa.get(cname, only_real_particles=False)
                if len(c) and (c.min() <= box[2 * a] - L[a] or c.max() >= box[2 * a + 1] + L[a]):
                    raise InvalidScenario('particle outside by a full period')
    dm = DomainManager(xmin=box[0], xmax=box[1], ymin=box[2], ymax=box[3], zmin=box[4], zmax=box[5],
                       periodic_in_x=per[0], periodic_in_y=per[1], periodic_in_z=per[2],
                       mirror_in_x=mir[0], mirror_in_y=mir[1], mirror_in_z=mir[2], n_layers=n_layers,
                       props=(None if props is None else (list(props) if isinstance(props, list) else {k: list(v) for k, v in props.items()})))
    # state of the real particles as the model knows it: {ident: record}
    def reals_of(pa):
        # the particles the domain manager works on: everything that is not one of its own ghosts (Local and Remote)
        recs = _records(pa)
        return [r for r in recs if r['tag'][0] != 2]

    before = [reals_of(pa) for pa in particles]
    counts = []
    stale_hmax = [0.0]
    added_props = {}

    def expected_and_check(what, before):
        """compare every array with the model built from `before` (the real particles just before the update)"""
        hmax = max([r['h'][0] for b in before for r in b] + [0.0])
        cs = rs * hmax
        if cs < 1e-6:
            cs = 1.0
        layer = n_layers * cs
        # the cell size is computed while the ghosts of the previous update are still present: if the particle with the
        # largest h was removed (or shrank) since, the layer may be as thick as the stale ghosts make it.  The statement
        # does not say which; images within the thicker layer are allowed, images within the thinner one are required.
        cs2 = rs * max(hmax, stale_hmax[0])
        if cs2 < 1e-6:
            cs2 = 1.0
        layer_may = n_layers * cs2
        total_expected = 0
        for ai, pa in enumerate(particles):
            recs = _records(pa)
            n = len(recs)
            tags = [r['tag'][0] for r in recs]
            nreal = len(before[ai])
            nloc = sum(1 for r in before[ai] if r['tag'][0] == 0)
            sg = dict(array=ai, second_array=(ai > 0))
            if pa.num_real_particles != nloc or any(t != 0 for t in tags[:nloc]) or any(t == 0 for t in tags[nloc:]):
                violate('real-particles-not-first', '%s: array %d has tags %r, num_real_particles=%d, expected %d real particles first'
                        % (what, ai, tags[:40], pa.num_real_particles, nloc), **sg)
                return
            if sum(1 for t in tags if t == 1) != nreal - nloc or any(t not in (1, 2) for t in tags[nloc:]):
                violate('ghost-not-tagged', '%s: array %d holds %d Remote-tagged particles (expected the %d it had before the update); tags after '
                        'the real particles are %r' % (what, ai, sum(1 for t in tags if t == 1), nreal - nloc, sorted(set(tags[nloc:]))), **sg)
                return
            base_recs = [r for r in recs if r['tag'][0] != 2]
            ghost_recs = [r for r in recs if r['tag'][0] == 2]
            # real particles: unchanged except wrapping
            exp_real = {}
            for r in before[ai]:
                e = dict(r)
                pos = [r['x'][0], r['y'][0], r['z'][0]]
                for a in range(3):
                    if per[a]:
                        v = pos[a]
                        if v < box[2 * a]:
                            v = v + L[a]
                            probe('wrapped_particle')
                            if pos[a] < box[2 * a] - 0.9 * L[a]:
                                probe('wrap_nearly_full_period')
                        if v > box[2 * a + 1]:
                            v = v - L[a]
                            probe('wrapped_particle')
                            if pos[a] > box[2 * a + 1] + 0.9 * L[a]:
                                probe('wrap_nearly_full_period')
                        pos[a] = v
                e['x'], e['y'], e['z'] = (pos[0],), (pos[1],), (pos[2],)
                exp_real[r['ident'][0]] = e
            got_real = {r['ident'][0]: r for r in base_recs}
            if sorted(got_real) != sorted(exp_real) or len(got_real) != nreal:
                violate('real-particles-changed', '%s: array %d real identities %r, expected %r' % (
                    what, ai, sorted(got_real)[:20], sorted(exp_real)[:20]), **sg)
                return
            for idn, e in exp_real.items():
                g = got_real[idn]
                if g != e:
                    diff = {p: (g[p], e[p]) for p in e if g[p] != e[p]}
                    key = 'not-wrapped-into-box' if set(diff) <= set('xyz') else 'real-particles-changed'
                    violate(key, '%s: array %d real particle %d is %r, expected %r' % (what, ai, idn, diff, '(got, expected)'), **sg)
                    return
                for a, cname in enumerate('xyz'):
                    if per[a] and not (box[2 * a] <= g[cname][0] <= box[2 * a + 1]):
                        violate('not-wrapped-into-box', '%s: array %d real particle %d has %s=%r outside [%r, %r]'
                                % (what, ai, idn, cname, g[cname][0], box[2 * a], box[2 * a + 1]), **sg)
                        return
            # expected ghosts
            cl = copy_lists[ai]
            defaults = {p: pa.default_values[p] for p in pa.properties}
            must = {}
            may = {}
            for idn, e in exp_real.items():
                pos = [e['x'][0], e['y'][0], e['z'][0]]
                opts_must = []
                opts_may = []
                nlay = 0
                for a in range(3):
                    om = [('0', 0.0)]
                    oy = [('0', 0.0)]
                    if per[a] or mir[a]:
                        dlo = pos[a] - box[2 * a]
                        dhi = box[2 * a + 1] - pos[a]
                        tol = 1e-12 * max(abs(layer), abs(box[2 * a]), abs(box[2 * a + 1]), 1.0)
                        for (d, nm) in ((dlo, 'lo'), (dhi, 'hi')):
                            if d <= layer_may + tol:
                                oy.append((nm, 0.0))
                                if d <= layer - tol:
                                    om.append((nm, 0.0))
                                else:
                                    probe('band_particle')
                        if d == 0 or dlo == 0 or dhi == 0:
                            probe('on_face')
                        elif min(abs(dlo), abs(dhi)) < 1e-13 * max(1.0, abs(box[2 * a]), abs(box[2 * a + 1])):
                            probe('ulp_off_face')
                        if len(om) == 3:
                            probe('both_low_and_high_layer')
                        if len(om) > 1:
                            nlay += 1
                    opts_must.append([o[0] for o in om])
                    opts_may.append([o[0] for o in oy])
                if nlay == 2:
                    probe('corner_2_axes')
                if nlay == 3:
                    probe('corner_3_axes')
                ms = set(itertools.product(*opts_must)) - {('0', '0', '0')}
                ys = set(itertools.product(*opts_may)) - {('0', '0', '0')}
                must[idn] = ms
                may[idn] = ys
                total_expected += len(ms)
            # actual ghosts
            seen = {}
            for g in ghost_recs:
                idn = g['ident'][0]
                if idn not in exp_real:
                    violate('ghost-of-unknown-particle', '%s: array %d holds a ghost with identity %r' % (what, ai, idn), **sg)
                    return
                e = exp_real[idn]
                combo = []
                okc = True
                for a, cname in enumerate('xyz'):
                    gv, ev = g[cname][0], e[cname][0]
                    if per[a]:
                        if gv == ev:
                            combo.append('0')
                        elif gv == ev + L[a]:
                            combo.append('lo')      # image of a particle near the low face appears beyond the high face
                        elif gv == ev - L[a]:
                            combo.append('hi')
                        else:
                            okc = False
                    elif mir[a]:
                        lo_img = ev + (-2 * (ev - box[2 * a]))
                        hi_img = ev + (2 * (box[2 * a + 1] - ev))
                        if gv == lo_img and gv != ev:
                            combo.append('lo')
                        elif gv == hi_img and gv != ev:
                            combo.append('hi')
                        elif gv == ev:
                            # a particle exactly on a mirror face coincides with its image
                            dl, dh = ev - box[2 * a], box[2 * a + 1] - ev
                            combo.append('0?' if (dl == 0 or dh == 0) else '0')
                        else:
                            okc = False
                    else:
                        if gv != ev:
                            okc = False
                        combo.append('0')
                if not okc:
                    violate('ghost-misplaced', '%s: array %d ghost of particle %d at (%r, %r, %r) is no image of the original at (%r, %r, %r)'
                            % (what, ai, idn, g['x'][0], g['y'][0], g['z'][0], e['x'][0], e['y'][0], e['z'][0]), **sg)
                    return
                # resolve on-face ambiguities: an on-face mirror image equals the original position
                cands = [tuple(combo)]
                if any(c == '0?' for c in combo):
                    cands = []
                    for repl in itertools.product(*[(['0', 'lo', 'hi'] if c == '0?' else [c]) for c in combo]):
                        cands.append(tuple(repl))
                def copy_error(cnd):
                    for p in e:
                        if p in ('x', 'y', 'z', 'tag'):
                            continue
                        copied = not (cl is not None and p not in cl)
                        dflt = (defaults[p],) * len(e[p])
                        if copied:
                            options = [e[p]]
                        elif not any(mir):
                            options = [dflt]
                        else:
                            # mixed / mirror domain: a reflection of a real particle copies everything, a reflection of a
                            # periodic ghost copies the ghost's default values
                            options = [e[p], dflt]
                        if p in ('u', 'v', 'w'):
                            ax = 'uvw'.index(p)
                            if mir[ax] and cnd[ax] in ('lo', 'hi'):
                                options = [tuple(-1.0 * v for v in o) for o in options]
                        gv = tuple(float(v) for v in g[p])
                        if not any(gv == tuple(float(v) for v in o) for o in options):
                            return (p, g[p], options[0])
                    return None

                free = [cnd for cnd in cands if cnd in may[idn] and (idn, cnd) not in seen]
                if not free:
                    if any((idn, cnd) in seen for cnd in cands):
                        violate('duplicate-ghost', '%s: array %d holds image %r of particle %d more than once' % (what, ai, cands[0], idn), **sg)
                    else:
                        violate('unexpected-ghost', '%s: array %d holds image %r of particle %d which is not within the ghost layer '
                                '(layer %r, position (%r, %r, %r))' % (what, ai, cands[0], idn, layer, e['x'][0], e['y'][0], e['z'][0]), **sg)
                    return
                good = [cnd for cnd in free if copy_error(cnd) is None]
                if not good:
                    p, gv, ev = copy_error(free[0])
                    violate('ghost-copy-differs', '%s: array %d image %r of particle %d has %s=%r, expected %r'
                            % (what, ai, free[0], idn, p, gv, ev), prop_kind=('velocity' if p in 'uvw' else 'other'), **sg)
                    return
                # prefer an image the model requires
                good.sort(key=lambda c: (c not in must[idn]))
                seen[(idn, good[0])] = g
            # the images of one particle form a product over the axes (one in/out decision per axis and side, shared by face,
            # edge and corner images), also for a particle that sits exactly on the inner boundary of a layer
            by_id = {}
            for (idn, cnd) in seen:
                by_id.setdefault(idn, set()).add(cnd)
            for idn, imgs in by_id.items():
                full = set(imgs) | {('0', '0', '0')}
                axes_sets = [set(c[a] for c in full) for a in range(3)]
                if len(full) != len(axes_sets[0]) * len(axes_sets[1]) * len(axes_sets[2]):
                    lacking = sorted(set(itertools.product(*axes_sets)) - full)
                    violate('images-not-a-product', '%s: array %d particle %d at (%r, %r, %r) has images %r but not %r (layer thickness %r)'
                            % (what, ai, idn, exp_real[idn]['x'][0], exp_real[idn]['y'][0], exp_real[idn]['z'][0], sorted(imgs), lacking[:4], layer),
                            **sg)
                    return
                if len(imgs) > 1 and any(c not in must[idn] for c in imgs):
                    probe('band_particle_with_edge_images')
            for idn, ms in must.items():
                for cnd in ms:
                    if (idn, cnd) not in seen:
                        violate('missing-ghost', '%s: array %d lacks image %r of particle %d at (%r, %r, %r); layer thickness %r'
                                % (what, ai, cnd, idn, exp_real[idn]['x'][0], exp_real[idn]['y'][0], exp_real[idn]['z'][0], layer), **sg)
                        return
            if ai > 0 and any(mir) and must:
                probe('second_array_mirror')
        counts.append(total_expected)
        # completeness: every periodic image that can interact with a real particle exists
        if any(per) and not viol:
            allrecs = [(ai, r) for ai, pa in enumerate(particles) for r in _records(pa)]
            reals = [(ai, r) for ai, r in allrecs if r['tag'][0] == 0]
            ghosts = set()
            for ai, r in allrecs:
                if r['tag'][0] == 2:
                    ghosts.add((ai, r['ident'][0], r['x'][0], r['y'][0], r['z'][0]))
            shifts = list(itertools.product(*[([0.0, L[a], -L[a]] if per[a] else [0.0]) for a in range(3)]))
            nchk = 0
            for (ai, ri) in reals[:40]:
                for (aj, rj) in reals[:40]:
                    for s in shifts:
                        if s == (0.0, 0.0, 0.0):
                            continue
                        img = (rj['x'][0] + s[0], rj['y'][0] + s[1], rj['z'][0] + s[2])
                        d2 = sum((img[k] - (ri['x'][0], ri['y'][0], ri['z'][0])[k]) ** 2 for k in range(3))
                        c = rs * max(ri['h'][0], rj['h'][0])
                        if d2 < c * c * (1 - 1e-9):
                            nchk += 1
                            if (aj, rj['ident'][0], img[0], img[1], img[2]) not in ghosts:
                                violate('interacting-image-missing',
                                        '%s: image of particle %d (array %d) at %r lies within the kernel support of real particle %d '
                                        '(array %d) but is not present as a ghost' % (what, rj['ident'][0], aj, img, ri['ident'][0], ai))
                                return
            if nchk:
                probe('interacting_image_checked', nchk)

    try:
        if sc.get('earlier_manager'):
            # another domain manager (of a solver that ran before, say) has already worked on these arrays and left its
            # ghosts behind; the manager under test must start from them
            dm0 = DomainManager(xmin=box[0], xmax=box[1], ymin=box[2], ymax=box[3], zmin=box[4], zmax=box[5],
                                periodic_in_x=per[0], periodic_in_y=per[1], periodic_in_z=per[2],
                                mirror_in_x=mir[0], mirror_in_y=mir[1], mirror_in_z=mir[2], n_layers=n_layers)
            LinkedListNNPS(dim=dim, particles=particles, domain=dm0, radius_scale=rs)
            if any((pa.get('tag', only_real_particles=False) == 2).any() for pa in particles if pa.get_number_of_particles()):
                probe('ghosts_of_an_earlier_manager_present')
            before = [reals_of(pa) for pa in particles]
            stale_hmax[0] = max([float(pa.get('h', only_real_particles=False).max()) for pa in particles
                                 if pa.get_number_of_particles()] or [0.0])
        nnps = LinkedListNNPS(dim=dim, particles=particles, domain=dm, radius_scale=rs)
    except Exception as e:
        import traceback
        violate('update-raised', 'constructing the NNPS / first domain update raised %r\n%s' % (e, traceback.format_exc()[-500:]))
        return dict(violations=viol, digest=0, nontrivial=False, faults={}, probes=probes, sim=0.0, inconclusive=False)
    expected_and_check('first update', before)
    nupd = 1
    for ri, rd in enumerate(rounds[:8]):
        if viol:
            break
        if not isinstance(rd, dict):
            continue
        moves = rd.get('moves', [])
        if not moves:
            probe('update_without_motion')
        hmax_now = max([float(pa.get('h', only_real_particles=False).max()) for pa in particles if pa.get_number_of_particles()] or [1.0])
        layer = n_layers * rs * hmax_now
        for mv in moves:
            try:
                ai, i, how, a, b, c = int(mv[0]) % narr, int(mv[1]), mv[2], float(mv[3]), float(mv[4]), float(mv[5])
            except Exception:
                continue
            pa = particles[ai]
            nreal = pa.num_real_particles
            if nreal == 0:
                continue
            i = i % nreal
            for ax, (cname, d) in enumerate(zip('xyz', (a, b, c))):
                if ax >= dim:
                    continue
                arr = pa.get(cname, only_real_particles=False)
                lo, hi = box[2 * ax], box[2 * ax + 1]
                if how == 'small':
                    nv = arr[i] + d * layer
                elif how == 'big':
                    nv = arr[i] + d * 1.9 * L[ax]
                elif how == 'toface':
                    nv = lo if d < 0 else hi
                else:
                    nv = lo + (d + 0.5) * L[ax]
                if mir[ax] or not per[ax]:
                    nv = min(max(nv, lo), hi) if mir[ax] else nv
                if per[ax]:
                    # stay within less than one period of the box
                    nv = min(max(nv, lo - 0.999 * L[ax]), hi + 0.999 * L[ax])
                arr[i] = nv
            if rd.get('vel'):
                pa.get('u', only_real_particles=False)[i] = a * 4
                pa.get('q', only_real_particles=False)[i] = b
        if rd.get('via_add_property') and moves:
            # the new coordinates are handed over with add_property(name, data=...) on the existing property
            for pa in particles:
                if pa.get_number_of_particles():
                    for cname in 'xyz'[:dim]:
                        pa.add_property(cname, data=pa.get(cname, only_real_particles=False).copy())
            probe('moved_through_add_property')
        ad = rd.get('add')
        if isinstance(ad, list) and len(ad) == 2 and isinstance(ad[1], list):
            ai = int(ad[0]) % narr
            rows = []
            for r in ad[1]:
                try:
                    row = [float(v) for v in r[:7]]
                except Exception:
                    continue
                if len(row) == 7 and row[3] > 0 and row[3] <= hmax0 and all(math.isfinite(v) for v in row):
                    ok = True
                    for ax in range(3):
                        lo, hi = box[2 * ax], box[2 * ax + 1]
                        if ax >= dim:
                            row[ax] = 0.0
                        elif mir[ax] and not (lo <= row[ax] <= hi):
                            ok = False
                        elif per[ax] and not (lo - L[ax] < row[ax] < hi + L[ax]):
                            ok = False
                    if ok:
                        rows.append(row)
            if rows:
                pa = particles[ai]
                ids = list(range(next_id, next_id + len(rows)))
                next_id += len(rows)
                arr = np.array(rows, dtype=float)
                c = _cols(ids)
                kw = dict(x=arr[:, 0].copy(), y=arr[:, 1].copy(), z=arr[:, 2].copy(), h=arr[:, 3].copy(), u=arr[:, 4].copy(),
                          v=arr[:, 5].copy(), w=arr[:, 6].copy())
                for (p, ctype, stride) in EXTRA:
                    kw[p] = c[p]
                for p in list(added_props.get(ai, {})):
                    ctype, stride = added_props[ai][p]
                    kw[p] = np.asarray([(i * 7 + k) % 100 for i in ids for k in range(stride)], dtype=NPT[ctype])
                # ghosts of the previous update are still in the array: new particles are added as in an inlet
                pa.add_particles(**kw)
                probe('particles_added_between_updates')
        rm = rd.get('remove')
        if isinstance(rm, list) and len(rm) == 2 and isinstance(rm[1], list):
            ai = int(rm[0]) % narr
            pa = particles[ai]
            nreal = pa.num_real_particles
            if nreal > 1:
                idx = sorted(set(int(i) % nreal for i in rm[1] if isinstance(i, int)))
                if idx and len(idx) < nreal:
                    pa.remove_particles(idx)
                    probe('particles_removed_between_updates')
        ap = rd.get('addprop')
        if isinstance(ap, list) and len(ap) == 2 and ap[1] in NEWPROPS:
            ai = int(ap[0]) % narr
            pa = particles[ai]
            name = ap[1]
            if name not in pa.properties:
                ctype, stride = NEWPROPS[name]
                n_all = pa.get_number_of_particles()
                idents = pa.get('ident', only_real_particles=False)
                data = np.asarray([(int(i) * 7 + k) % 100 for i in idents for k in range(stride)], dtype=NPT[ctype])
                pa.add_property(name, type=ctype, stride=stride, data=data if n_all else None)
                added_props.setdefault(ai, {})[name] = (ctype, stride)
                probe('property_added_between_updates')
        before = [reals_of(pa) for pa in particles]
        stale_hmax[0] = max([float(pa.get('h', only_real_particles=False).max()) for pa in particles
                             if pa.get_number_of_particles()] or [0.0])
        try:
            nnps.update_domain()
        except Exception as e:
            import traceback
            violate('update-raised', 'domain update %d raised %r\n%s' % (nupd, e, traceback.format_exc()[-500:]))
            break
        nupd += 1
        expected_and_check('update %d' % nupd, before)
        if not viol and ri % 2 == 0:
            try:
                nnps.update()
            except Exception as e:
                violate('update-raised', 'nnps.update after domain update raised %r' % (e,))
    shape = (dim, per, mir, n_layers, [len(s.get('pts', [])) for s in specs], counts, props is None)
    return dict(violations=viol, digest=digest(repr(shape)), nontrivial=any(c > 0 for c in counts), faults={}, probes=probes,
                sim=float(nupd), inconclusive=False)
