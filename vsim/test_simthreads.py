"""Differential self-test of vsim.simthreads.

Small thread programs whose outcome is schedule independent under CPython's
threading must give that same outcome under every simulated schedule, and
programs known to deadlock must be reported as deadlocks.  Run as
    /venv/bin/python -m vsim.test_simthreads
exit 0 = primitives behave; used by setup.sh.
"""
import random
import sys
import threading as real

from . import simthreads as st


# ---- programs: each takes a threading-like module T and returns (threads to start, result getter)
def prog_handoff(T):
    """producer/consumer through a Condition with predicates"""
    cond = T.Condition()
    box = []
    out = []

    def producer():
        for i in range(5):
            with cond:
                while box:
                    cond.wait()
                box.append(i)
                cond.notify_all()

    def consumer():
        for _ in range(5):
            with cond:
                while not box:
                    cond.wait()
                out.append(box.pop())
                cond.notify_all()
    return [producer, consumer], lambda: list(out)


def prog_rlock(T):
    """re-entrant lock protects a counter; wait() on a Condition(RLock) releases all levels"""
    lock = T.RLock()
    cond = T.Condition(lock)
    state = {'n': 0, 'go': False}

    def waiter():
        with lock:
            with lock:          # depth 2
                while not state['go']:
                    cond.wait()
                state['n'] += 100

    def setter():
        with lock:              # must be able to get in while the waiter waits at depth 2
            state['go'] = True
            state['n'] += 1
            cond.notify()
    return [waiter, setter], lambda: state['n']


def prog_counter(T):
    lock = T.Lock()
    state = {'n': 0}

    def worker():
        for _ in range(20):
            with lock:
                v = state['n']
                state['n'] = v + 1
    return [worker, worker, worker], lambda: state['n']


def prog_notify_n(T):
    """notify(2) wakes exactly two of three waiters; the third needs a later notify_all"""
    cond = T.Condition(T.Lock())
    state = {'tickets': 0, 'served': 0}

    def waiter():
        with cond:
            while state['tickets'] == 0:
                cond.wait()
            state['tickets'] -= 1
            state['served'] += 1

    def feeder():
        with cond:
            state['tickets'] += 2
            cond.notify(2)
        with cond:
            state['tickets'] += 1
            cond.notify_all()
    return [waiter, waiter, waiter, feeder], lambda: (state['tickets'], state['served'])


def prog_lock_released_by_other(T):
    """a plain Lock may be released by another thread (the controller relies on it)"""
    gate = T.Lock()
    gate.acquire()
    out = []

    def waiter():
        with gate:
            out.append('through')

    def opener():
        out.append('open')
        gate.release()
    return [waiter, opener], lambda: sorted(out)


def prog_join(T):
    out = []

    def child():
        out.append(1)

    def parent():
        th = T.Thread(target=child)
        th.start()
        th.join()
        out.append(2)
    return [parent], lambda: list(out)


def prog_event(T):
    ev = T.Event()
    out = []

    def a():
        ev.wait()
        out.append('a')

    def b():
        out.append('b')
        ev.set()
    return [a, b], lambda: list(out)


def prog_abba(T):
    l1, l2 = T.Lock(), T.Lock()

    def a():
        with l1:
            st.yield_now() if T is st else None
            with l2:
                pass

    def b():
        with l2:
            st.yield_now() if T is st else None
            with l1:
                pass
    return [a, b], lambda: 'done'


def prog_wait_no_notifier(T):
    cond = T.Condition()

    def a():
        with cond:
            cond.wait()
    return [a], lambda: 'done'


SAFE = [prog_handoff, prog_rlock, prog_counter, prog_notify_n, prog_lock_released_by_other, prog_join, prog_event]


def run_real(prog):
    fns, get = prog(real)
    ths = [real.Thread(target=f) for f in fns]
    for t in ths:
        t.daemon = True
        t.start()
    for t in ths:
        t.join(5.0)
        if t.is_alive():
            return 'real-timeout'
    return get()


def run_sim(prog, seed, policy):
    rng = random.Random(seed)
    S = st.Scheduler(sched=[rng.randrange(0, 6) for _ in range(400)], policy=policy, max_events=20000)
    st.install(S)
    try:
        fns, get = prog(st)
        ths = [st.Thread(target=f) for f in fns]
        for t in ths:
            t.start()
        outcome = S.run()
        if S.thread_exc:
            return 'exception: %r' % (S.thread_exc[0][2],), outcome
        return get(), outcome
    finally:
        st.install(None)


def main(n=150):
    bad = 0
    policies = [dict(kind='random'), dict(kind='sticky', stick=3), dict(kind='pct', prios=[3, 1, 2, 0], changes=[3, 9, 20]),
                dict(kind='random', starve={'tid': 0, 'from': 2, 'to': 40})]
    for prog in SAFE:
        want = run_real(prog)
        for seed in range(n):
            got, outcome = run_sim(prog, seed, policies[seed % len(policies)])
            if outcome != 'done' or got != want:
                bad += 1
                print('MISMATCH %s seed %d: simulated %r (%s), real threading %r' % (prog.__name__, seed, got, outcome, want))
                break
    # deadlocks must be found
    dl = sum(1 for seed in range(n) if run_sim(prog_abba, seed, policies[seed % len(policies)])[1] == 'deadlock')
    if dl == 0 or dl == n:
        bad += 1
        print('ABBA lock order: %d of %d schedules deadlocked (expected some, not all)' % (dl, n))
    dl2 = sum(1 for seed in range(20) if run_sim(prog_wait_no_notifier, seed, policies[seed % len(policies)])[1] == 'deadlock')
    if dl2 != 20:
        bad += 1
        print('wait without notifier: %d of 20 schedules reported a deadlock (expected all)' % dl2)
    print('simthreads self-test: %d programs x %d schedules, ABBA deadlocks %d/%d, lost-wait deadlocks %d/20: %s'
          % (len(SAFE), n, dl, n, dl2, 'FAILED' if bad else 'ok'))
    return 1 if bad else 0


if __name__ == '__main__':
    sys.exit(main())
