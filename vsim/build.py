"""Overlay of /repo's *current working tree* with freshly built extensions.

/repo/pysph holds sources only; the installed copy in /venv/site-packages is the
pinned build and must never be what the checks exercise.  ensure_overlay()
hashes the working tree, copies the package to a cache directory, builds the
Cython extensions from that copy when the build inputs changed (27 s on 16
cores), and activate() puts the overlay first on sys.path.

Cache layout (outside /repo, /verif and /tmp; re-creatable from nothing):
  $VERIF_CACHE/ext/<ext_hash>/so/...      built .so files (relative paths)
  $VERIF_CACHE/ext/<ext_hash>/home/       HOME for run-time generated modules
  $VERIF_CACHE/tree/<tree_hash>/pysph/    package copy + links to the .so files
"""
import hashlib
import os
import shutil
import subprocess
import sys
import time

PY = '/venv/bin/python'
BUILD_EXTS = ('.pyx', '.pxd', '.h', '.hpp', '.mako', '.pxi')
SKIP_DIRS = {'__pycache__', '.git', 'build', 'dist', 'PySPH.egg-info', '.pytest_cache'}
SKIP_EXTS = ('.cpp', '.c', '.so', '.o', '.pyc', '.pyd', '.orig', '.npz', '.log')


def repo_root():
    return os.environ.get('VERIF_REPO', '/repo')


def cache_root():
    c = os.environ.get('VERIF_CACHE')
    if not c:
        home = os.environ.get('VERIF_REAL_HOME') or os.path.expanduser('~')
        c = os.path.join(home, '.cache', 'pysph_verif')
        os.environ['VERIF_CACHE'] = c
    os.makedirs(c, exist_ok=True)
    return c


def _walk(root, sub):
    base = os.path.join(root, sub)
    for dp, dns, fns in os.walk(base):
        dns[:] = sorted(d for d in dns if d not in SKIP_DIRS)
        for fn in sorted(fns):
            if fn.endswith(SKIP_EXTS):
                continue
            p = os.path.join(dp, fn)
            yield os.path.relpath(p, root), p


def _hash_files(items):
    h = hashlib.sha256()
    for rel, p in items:
        h.update(rel.encode())
        h.update(b'\0')
        try:
            with open(p, 'rb') as f:
                h.update(hashlib.sha256(f.read()).digest())
        except OSError:
            h.update(b'?')
    return h.hexdigest()[:20]


def hashes(root=None):
    root = root or repo_root()
    files = list(_walk(root, 'pysph'))
    top = [(n, os.path.join(root, n)) for n in ('setup.py', 'pyproject.toml', 'setup.cfg')
           if os.path.exists(os.path.join(root, n))]
    ext_items = [(r, p) for r, p in files if r.endswith(BUILD_EXTS)] + top
    return _hash_files(ext_items), _hash_files(files + top)


class _Lock(object):
    def __init__(self, path, stale_s=900):
        self.path = path
        self.stale_s = stale_s

    def __enter__(self):
        t0 = time.time()
        while True:
            try:
                os.mkdir(self.path)
                with open(os.path.join(self.path, 'pid'), 'w') as f:
                    f.write(str(os.getpid()))
                return self
            except FileExistsError:
                try:
                    with open(os.path.join(self.path, 'pid')) as f:
                        pid = int(f.read() or 0)
                    alive = pid > 0 and os.path.exists('/proc/%d' % pid)
                except (OSError, ValueError):
                    alive = True
                    try:
                        if time.time() - os.path.getmtime(self.path) > 30:
                            alive = False
                    except OSError:
                        pass
                if not alive or time.time() - t0 > self.stale_s:
                    shutil.rmtree(self.path, ignore_errors=True)
                    continue
                time.sleep(0.2)

    def __exit__(self, *a):
        shutil.rmtree(self.path, ignore_errors=True)


def _copy_tree(root, dst):
    for rel, p in _walk(root, 'pysph'):
        d = os.path.join(dst, rel)
        os.makedirs(os.path.dirname(d), exist_ok=True)
        shutil.copy2(p, d)


def _build_ext(root, ext_dir, log=None):
    bdir = ext_dir + '.build'
    shutil.rmtree(bdir, ignore_errors=True)
    os.makedirs(bdir)
    _copy_tree(root, bdir)
    for n in os.listdir(root):
        p = os.path.join(root, n)
        if os.path.isfile(p) and not n.endswith(SKIP_EXTS):
            shutil.copy2(p, os.path.join(bdir, n))
    env = dict(os.environ)
    env.pop('PYSPH_VERIF', None)
    env['HOME'] = os.environ.get('VERIF_REAL_HOME') or os.path.expanduser('~')
    t0 = time.time()
    r = subprocess.run([PY, 'setup.py', 'build_ext', '--inplace', '-j16'],
                       cwd=bdir, env=env, stdout=subprocess.PIPE,
                       stderr=subprocess.STDOUT, text=True)
    if r.returncode != 0:
        tail = '\n'.join(r.stdout.splitlines()[-60:])
        shutil.rmtree(bdir, ignore_errors=True)
        raise BuildError('extension build failed:\n' + tail)
    so_dir = os.path.join(ext_dir + '.tmp', 'so')
    shutil.rmtree(ext_dir + '.tmp', ignore_errors=True)
    n = 0
    for dp, dns, fns in os.walk(os.path.join(bdir, 'pysph')):
        for fn in fns:
            if fn.endswith('.so'):
                rel = os.path.relpath(os.path.join(dp, fn), bdir)
                d = os.path.join(so_dir, rel)
                os.makedirs(os.path.dirname(d), exist_ok=True)
                shutil.move(os.path.join(dp, fn), d)
                n += 1
    os.makedirs(os.path.join(ext_dir + '.tmp', 'home'), exist_ok=True)
    with open(os.path.join(ext_dir + '.tmp', 'built'), 'w') as f:
        f.write('%d so files, %.1f s\n' % (n, time.time() - t0))
    shutil.rmtree(bdir, ignore_errors=True)
    os.rename(ext_dir + '.tmp', ext_dir)
    if n < 15:
        raise BuildError('only %d extension modules were built' % n)


class BuildError(Exception):
    pass


def _prune(d, keep, protect, min_age_s=3 * 3600):
    """keep the `keep` most recently used entries; never remove one that was used in the last hours (another check, e.g. a
    background sweep on another checkout, may be running on it)"""
    try:
        ents = [os.path.join(d, e) for e in os.listdir(d)]
    except OSError:
        return
    ents = [e for e in ents if os.path.isdir(e) and not e.endswith(('.lock', '.build', '.tmp'))]

    def mtime(e):
        # other processes create, rename and prune entries concurrently
        try:
            return os.path.getmtime(e)
        except OSError:
            return time.time()
    ents.sort(key=mtime, reverse=True)
    now = time.time()
    for e in ents[keep:]:
        try:
            if os.path.basename(e) not in protect and now - mtime(e) > min_age_s:
                shutil.rmtree(e, ignore_errors=True)
        except OSError:
            pass


def ensure_overlay(root=None, verbose=False):
    """returns dict(overlay=<dir to put on sys.path>, home=..., ext_hash, tree_hash)"""
    root = root or repo_root()
    cache = cache_root()
    ext_hash, tree_hash = hashes(root)
    ext_dir = os.path.join(cache, 'ext', ext_hash)
    tree_dir = os.path.join(cache, 'tree', tree_hash)
    os.makedirs(os.path.join(cache, 'ext'), exist_ok=True)
    os.makedirs(os.path.join(cache, 'tree'), exist_ok=True)
    if not os.path.exists(os.path.join(ext_dir, 'built')):
        with _Lock(ext_dir + '.lock'):
            if not os.path.exists(os.path.join(ext_dir, 'built')):
                if verbose:
                    print('[build] building extensions for ext_hash=%s ...' % ext_hash, flush=True)
                shutil.rmtree(ext_dir, ignore_errors=True)
                _build_ext(root, ext_dir)
    if not os.path.exists(os.path.join(tree_dir, 'ok')):
        with _Lock(tree_dir + '.lock'):
            if not os.path.exists(os.path.join(tree_dir, 'ok')):
                shutil.rmtree(tree_dir, ignore_errors=True)
                tmp = tree_dir + '.tmp'
                shutil.rmtree(tmp, ignore_errors=True)
                os.makedirs(tmp)
                _copy_tree(root, tmp)
                so_dir = os.path.join(ext_dir, 'so')
                for dp, dns, fns in os.walk(so_dir):
                    for fn in fns:
                        rel = os.path.relpath(os.path.join(dp, fn), so_dir)
                        d = os.path.join(tmp, rel)
                        os.makedirs(os.path.dirname(d), exist_ok=True)
                        os.symlink(os.path.join(dp, fn), d)
                with open(os.path.join(tmp, 'ok'), 'w') as f:
                    f.write(ext_hash + '\n')
                os.rename(tmp, tree_dir)
    now = time.time()
    for p in (ext_dir, tree_dir):
        try:
            os.utime(p, (now, now))
        except OSError:
            pass
    try:
        _prune(os.path.join(cache, 'tree'), 6, {tree_hash})
        _prune(os.path.join(cache, 'ext'), 4, {ext_hash})
    except Exception:
        pass        # housekeeping must never fail a check
    return dict(overlay=tree_dir, home=os.path.join(ext_dir, 'home'),
                ext_hash=ext_hash, tree_hash=tree_hash)


_ACTIVE = None


def activate(verbose=False, sched=False):
    """build (if needed) and make `import pysph` resolve to the overlay."""
    global _ACTIVE
    if _ACTIVE is not None:
        return _ACTIVE
    if 'VERIF_REAL_HOME' not in os.environ:
        os.environ['VERIF_REAL_HOME'] = os.path.expanduser('~')
    info = ensure_overlay(verbose=verbose)
    if 'pysph' in sys.modules:
        raise RuntimeError('pysph imported before the overlay was activated')
    sys.path.insert(0, info['overlay'])
    os.environ['PYSPH_VERIF'] = '1'
    os.environ['HOME'] = info['home']
    os.makedirs(info['home'], exist_ok=True)
    os.environ.setdefault('OMP_NUM_THREADS', '1')
    import pysph
    f = os.path.realpath(pysph.__file__)
    if not f.startswith(os.path.realpath(info['overlay'])):
        raise RuntimeError('pysph resolved to %s, not to the overlay' % f)
    _ACTIVE = info
    return info


if __name__ == '__main__':
    t0 = time.time()
    i = ensure_overlay(verbose=True)
    print(i, '%.1fs' % (time.time() - t0))
