"""A simulated `threading`: locks, rlocks, conditions and threads whose every
synchronisation point hands control to a seeded scheduler.

Real OS threads are used only as coroutine carriers (baton passing): exactly one
simulated thread runs at any instant, and *which* one is decided by the
scheduler from the scenario's explicit decision list, never by the OS.

Semantics follow CPython's threading:
  * Lock: not owned (may be released by another thread), no FIFO guarantee: on
    release every waiter becomes runnable and re-competes (barging possible).
  * RLock: owned, re-entrant.
  * Condition(lock=None -> RLock): wait() releases the lock completely, blocks
    until notified, then re-acquires; notify(n) wakes the n longest waiting
    threads (FIFO like CPython); no spurious wake-ups unless the scenario asks
    for them; wait(timeout) may time out whenever the scheduler picks it.
"""
import threading as _real
import traceback

NEW, RUNNABLE, BLOCKED, TIMED, DONE = 0, 1, 2, 3, 4


class SimAbort(BaseException):
    pass


class SimError(Exception):
    pass


_S = None   # the current Scheduler


def current_scheduler():
    return _S


class Scheduler(object):
    def __init__(self, sched=(), policy=None, max_events=5000, spurious=False):
        self.sched = list(sched)
        self.k = 0
        self.policy = policy or {}
        self.kind = self.policy.get('kind', 'random')
        self.prios = list(self.policy.get('prios', []))
        self.changes = set(self.policy.get('changes', []))
        self.stick = int(self.policy.get('stick', 0))
        st = self.policy.get('starve') or {}
        self.starve_tid = st.get('tid', -1)
        self.starve_from = st.get('from', 0)
        self.starve_to = st.get('to', 0)
        self.max_events = max_events
        self.spurious = spurious
        self.threads = []
        self.current = None
        self.seq = 0            # global event sequence number
        self.decisions = 0
        self.trace = []
        self.outcome = None
        self.aborting = False
        self.main_sem = _real.Semaphore(0)
        self.thread_exc = []
        self.counters = {}
        self.on_event = None    # callback(kind) run after each event (invariants)
        self.low = 0
        self.fair = False       # round-robin (least recently run first), no draws

    def count(self, name, n=1):
        self.counters[name] = self.counters.get(name, 0) + n

    # -- decisions
    def _draw(self, n):
        if self.k < len(self.sched):
            v = self.sched[self.k] % n
        else:
            v = 0
        self.k += 1
        return v

    def _pick(self, runnable, cur):
        self.decisions += 1
        d = self.decisions
        if self.fair:
            best = min(runnable, key=lambda t: (t.last_run, t.tid))
            best.last_run = d
            return best
        if self.starve_tid >= 0 and self.starve_from <= d < self.starve_to and len(runnable) > 1:
            r2 = [t for t in runnable if t.tid != self.starve_tid]
            if len(r2) < len(runnable):
                self.count('starved_decisions')
                runnable = r2
        if len(runnable) == 1:
            self.k += 1
            return runnable[0]
        if self.kind == 'pct':
            if d in self.changes and cur is not None:
                self.low -= 1
                while len(self.prios) <= cur.tid:
                    self.prios.append(0)
                self.prios[cur.tid] = self.low
            best = None
            for t in runnable:
                p = self.prios[t.tid] if t.tid < len(self.prios) else 0
                if best is None or p > bp:
                    best, bp = t, p
            self.k += 1
            return best
        if self.kind == 'sticky' and cur is not None and cur.state == RUNNABLE:
            if self._draw(max(2, self.stick)) != 0:
                return cur
            return runnable[self._draw(len(runnable))]
        return runnable[self._draw(len(runnable))]

    # -- the baton
    def event(self, kind):
        self.seq += 1
        cur = self.current
        self.trace.append(((cur.tid if cur is not None else -1), kind))
        if self.on_event is not None:
            self.on_event(kind)

    def point(self, kind):
        """a scheduling point at which the current thread stays runnable"""
        if self.aborting:
            raise SimAbort()
        self.event(kind)
        self.switch()

    def switch(self):
        if self.aborting:
            raise SimAbort()
        cur = self.current
        runnable = [t for t in self.threads if t.state == RUNNABLE or t.state == TIMED]
        if not runnable:
            if all(t.state == DONE or t.state == NEW for t in self.threads):
                self._finish('done', cur)
            else:
                self._finish('deadlock', cur)
            return
        if self.seq >= self.max_events:
            self._finish('steps', cur)
            return
        nxt = self._pick(runnable, cur)
        nxt.last_run = self.decisions
        if nxt.state == TIMED:
            nxt.timed_out = True
            nxt.state = RUNNABLE
            self.count('timeouts_fired')
        if nxt is cur:
            return
        self.current = nxt
        nxt.sem.release()
        if cur is not None and cur.state != DONE:
            cur.sem.acquire()
            if self.aborting:
                raise SimAbort()

    def _finish(self, outcome, cur):
        if self.outcome is None:
            self.outcome = outcome
        self.current = None
        self.main_sem.release()
        if cur is not None and cur.state != DONE:
            cur.sem.acquire()
            raise SimAbort()

    def run(self):
        """called from the harness (not a simulated thread): run until every
        simulated thread is finished, a deadlock, or the event cap."""
        global _S
        assert self.current is None
        runnable = [t for t in self.threads if t.state == RUNNABLE]
        if runnable:
            nxt = self._pick(runnable, None)
            self.current = nxt
            nxt.sem.release()
            self.main_sem.acquire()
        else:
            self.outcome = 'done'
        # unwind whatever is left
        self.aborting = True
        for t in self.threads:
            if t.state != DONE and t.carrier is not None:
                t.sem.release()
        for t in self.threads:
            if t.carrier is not None:
                t.carrier.join(5.0)
        return self.outcome

    def blocked_report(self):
        out = []
        for t in self.threads:
            if t.state in (BLOCKED, TIMED):
                out.append('%s blocked on %s' % (getattr(t, 'label', None) or t.name, t.blocked_on))
        return '; '.join(out)


def install(s):
    global _S
    _S = s


def _me():
    s = _S
    if s is None:
        raise SimError('no scheduler installed')
    if s.aborting:
        raise SimAbort()
    return s, s.current


class Lock(object):
    _n = 0

    def __init__(self):
        self.is_locked = False
        self.owner = None
        self.waiters = []
        self.label = None

    def __repr__(self):
        return 'Lock(%s)' % (self.label or '?')

    def acquire(self, blocking=True, timeout=-1):
        s, me = _me()
        if me is None:
            # used from the harness thread outside the simulation
            if self.is_locked:
                raise SimError('harness would block on %r' % self)
            self.is_locked = True
            return True
        s.point('acq')
        while True:
            if not self.is_locked:
                self.is_locked = True
                self.owner = me
                return True
            if not blocking:
                return False
            self.waiters.append(me)
            me.blocked_on = self
            if timeout is not None and timeout >= 0:
                me.state = TIMED
                me.timed_out = False
            else:
                me.state = BLOCKED
            s.count('lock_contended')
            s.switch()
            me.blocked_on = None
            if me in self.waiters:
                self.waiters.remove(me)
            if me.timed_out:
                me.timed_out = False
                return False

    def release(self):
        s = _S
        if s is not None and s.aborting:
            raise SimAbort()
        if not self.is_locked:
            raise RuntimeError('release unlocked lock')
        self.is_locked = False
        self.owner = None
        for w in self.waiters:
            if w.state in (BLOCKED, TIMED):
                w.state = RUNNABLE
        del self.waiters[:]
        if s is not None and s.current is not None:
            s.point('rel')

    def locked(self):
        return self.is_locked

    __enter__ = acquire

    def __exit__(self, *a):
        self.release()


class RLock(object):
    def __init__(self):
        self.owner = None
        self.count = 0
        self.waiters = []
        self.label = None

    def __repr__(self):
        return 'RLock(%s)' % (self.label or '?')

    def acquire(self, blocking=True, timeout=-1):
        s, me = _me()
        if me is None:
            me = 'harness'
            if self.owner not in (None, me):
                raise SimError('harness would block on %r' % self)
            self.owner = me
            self.count += 1
            return True
        if self.owner is me:
            self.count += 1
            return True
        s.point('acq')
        while True:
            if self.owner is None:
                self.owner = me
                self.count = 1
                return True
            if not blocking:
                return False
            self.waiters.append(me)
            me.blocked_on = self
            me.state = BLOCKED
            s.count('lock_contended')
            s.switch()
            me.blocked_on = None
            if me in self.waiters:
                self.waiters.remove(me)

    def release(self):
        s = _S
        if s is not None and s.aborting:
            raise SimAbort()
        me = s.current if (s is not None and s.current is not None) else 'harness'
        if self.owner is not me:
            raise RuntimeError('cannot release un-acquired lock')
        self.count -= 1
        if self.count == 0:
            self.owner = None
            for w in self.waiters:
                if w.state == BLOCKED:
                    w.state = RUNNABLE
            del self.waiters[:]
            if me != 'harness':
                s.point('rel')

    def _is_owned(self):
        s = _S
        me = s.current if (s is not None and s.current is not None) else 'harness'
        return self.owner is me

    def _release_save(self):
        st = (self.count, self.owner)
        self.count = 0
        self.owner = None
        for w in self.waiters:
            if w.state == BLOCKED:
                w.state = RUNNABLE
        del self.waiters[:]
        return st

    def _acquire_restore(self, st):
        s, me = _me()
        while self.owner is not None:
            self.waiters.append(me)
            me.blocked_on = self
            me.state = BLOCKED
            s.switch()
            me.blocked_on = None
            if me in self.waiters:
                self.waiters.remove(me)
        self.count, self.owner = st

    __enter__ = acquire

    def __exit__(self, *a):
        self.release()


class Condition(object):
    def __init__(self, lock=None):
        if lock is None:
            lock = RLock()
        self._lock = lock
        self.acquire = lock.acquire
        self.release = lock.release
        self.waiters = []
        self.label = None

    def __repr__(self):
        return 'Condition(%s)' % (self.label or '?')

    def __enter__(self):
        return self._lock.__enter__()

    def __exit__(self, *a):
        return self._lock.__exit__(*a)

    def _owned(self):
        if isinstance(self._lock, RLock):
            return self._lock._is_owned()
        return self._lock.is_locked

    def wait(self, timeout=None):
        s, me = _me()
        if not self._owned():
            raise RuntimeError('cannot wait on un-acquired lock')
        if me is None:
            raise SimError('harness thread cannot wait')
        self.waiters.append(me)
        if isinstance(self._lock, RLock):
            saved = self._lock._release_save()
        else:
            saved = None
            self._lock.is_locked = False
            self._lock.owner = None
            for w in self._lock.waiters:
                if w.state in (BLOCKED, TIMED):
                    w.state = RUNNABLE
            del self._lock.waiters[:]
        me.blocked_on = self
        me.timed_out = False
        if timeout is not None or s.spurious:
            me.state = TIMED
        else:
            me.state = BLOCKED
        s.event('wait')
        s.count('cond_waits')
        s.switch()
        me.blocked_on = None
        notified = True
        if me in self.waiters:          # woke by timeout / spurious
            self.waiters.remove(me)
            notified = False
        me.timed_out = False
        if saved is not None:
            self._lock._acquire_restore(saved)
        else:
            while self._lock.is_locked:
                self._lock.waiters.append(me)
                me.blocked_on = self._lock
                me.state = BLOCKED
                s.switch()
                me.blocked_on = None
                if me in self._lock.waiters:
                    self._lock.waiters.remove(me)
            self._lock.is_locked = True
            self._lock.owner = me
        s.event('woke')
        if timeout is None:
            return True
        return notified

    def wait_for(self, predicate, timeout=None):
        r = predicate()
        while not r:
            self.wait(timeout)
            r = predicate()
            if timeout is not None and not r:
                # a timed wait_for gives up after one timed-out round
                break
        return r

    def notify(self, n=1):
        s, me = _me()
        if not self._owned():
            raise RuntimeError('cannot notify on un-acquired lock')
        woke = 0
        while self.waiters and woke < n:
            w = self.waiters.pop(0)
            if w.state in (BLOCKED, TIMED):
                w.state = RUNNABLE
                woke += 1
        if woke == 0:
            s.count('notify_no_waiter')
        if me is not None:
            s.point('notify')

    def notify_all(self):
        self.notify(len(self.waiters) + 1)

    notifyAll = notify_all


class Event(object):
    def __init__(self):
        self._cond = Condition(Lock())
        self._flag = False

    def is_set(self):
        return self._flag

    isSet = is_set

    def set(self):
        with self._cond:
            self._flag = True
            self._cond.notify_all()

    def clear(self):
        with self._cond:
            self._flag = False

    def wait(self, timeout=None):
        with self._cond:
            if not self._flag:
                self._cond.wait(timeout)
            return self._flag


class Thread(object):
    def __init__(self, group=None, target=None, name=None, args=(), kwargs=None, daemon=None):
        s = _S
        if s is None:
            raise SimError('no scheduler installed')
        self.target = target
        self.args = args
        self.kwargs = kwargs or {}
        self.daemon = bool(daemon)
        self.tid = len(s.threads)
        self.ident = None
        self.name = name or ('T%d' % self.tid)
        self.state = NEW
        self.blocked_on = None
        self.timed_out = False
        self.last_run = 0
        self.sem = _real.Semaphore(0)
        self.carrier = None
        self.joiners = []
        self.exc = None
        s.threads.append(self)

    def __repr__(self):
        return '<SimThread %s>' % self.name

    def run(self):
        if self.target is not None:
            self.target(*self.args, **self.kwargs)

    def _carry(self):
        s = _S
        self.sem.acquire()
        if s.aborting:
            return
        try:
            self.run()
        except SimAbort:
            return
        except BaseException as e:
            self.exc = e
            s.thread_exc.append((self.tid, getattr(self, 'label', None) or self.name, repr(e), traceback.format_exc()))
        if s.aborting:
            return
        self.state = DONE
        for j in self.joiners:
            if j.state in (BLOCKED, TIMED):
                j.state = RUNNABLE
        del self.joiners[:]
        try:
            s.event('exit')
            s.switch()
        except SimAbort:
            pass

    def start(self):
        s = _S
        if self.state != NEW:
            raise RuntimeError('threads can only be started once')
        self.ident = 1000 + self.tid
        self.state = RUNNABLE
        self.carrier = _real.Thread(target=self._carry, name='carrier-%d' % self.tid)
        self.carrier.daemon = True
        self.carrier.start()
        if s.current is not None:
            s.point('start')

    def join(self, timeout=None):
        s, me = _me()
        if me is None:
            raise SimError('harness thread cannot join a simulated thread')
        s.point('join')
        while self.state != DONE:
            self.joiners.append(me)
            me.blocked_on = self
            me.timed_out = False
            me.state = TIMED if timeout is not None else BLOCKED
            s.switch()
            me.blocked_on = None
            if me in self.joiners:
                self.joiners.remove(me)
            if me.timed_out:
                me.timed_out = False
                return

    def is_alive(self):
        return self.state in (RUNNABLE, BLOCKED, TIMED)

    isAlive = is_alive

    def setDaemon(self, d):
        self.daemon = d

    def getName(self):
        return self.name


class _MainThread(object):
    ident = 1
    name = 'MainThread'
    tid = -1
    daemon = False

    def is_alive(self):
        return True


_MAIN = _MainThread()


def current_thread():
    s = _S
    if s is None or s.current is None:
        return _MAIN
    return s.current


currentThread = current_thread


def get_ident():
    return current_thread().ident


def main_thread():
    return _MAIN


def yield_now(kind='yield'):
    """explicit scheduling point placed by workloads"""
    s, me = _me()
    if me is not None:
        s.point(kind)


def active_count():
    s = _S
    return 1 + sum(1 for t in s.threads if t.is_alive())


def enumerate():
    s = _S
    return [_MAIN] + [t for t in s.threads if t.is_alive()]


def allocate_lock():
    return Lock()


LockType = Lock
TIMEOUT_MAX = 1e9


class _FakeThreadModule(object):
    """stand-in for `_thread` / `thread` while a module is executed with the
    simulated threading"""
    LockType = Lock
    allocate_lock = staticmethod(allocate_lock)
    get_ident = staticmethod(get_ident)
    RLock = RLock
    error = RuntimeError
    TIMEOUT_MAX = 1e9


def exec_module_with_simthreads(name, source_path, extra_globals=None, code_cache={}):
    """execute a module's source in a fresh module object while `threading`
    and `_thread` resolve to this simulation."""
    import sys
    import types
    key = source_path
    if key not in code_cache:
        with open(source_path) as f:
            code_cache[key] = compile(f.read(), source_path, 'exec')
    mod = types.ModuleType(name)
    mod.__file__ = source_path
    if extra_globals:
        mod.__dict__.update(extra_globals)
    me = sys.modules[__name__]
    saved = {k: sys.modules.get(k) for k in ('threading', '_thread', 'thread')}
    sys.modules['threading'] = me
    sys.modules['_thread'] = _FakeThreadModule
    sys.modules.pop('thread', None)
    try:
        exec(code_cache[key], mod.__dict__)
    finally:
        for k, v in saved.items():
            if v is None:
                sys.modules.pop(k, None)
            else:
                sys.modules[k] = v
    return mod
