"""E-NNPS: neighbour structures under update histories, cache-fill schedules and
re-ordering (C01, C17).

Real: every CPU NNPS class (compiled), NeighborCache, ParticleArray.
Oracle: exact brute force over the arrays as they are now, with an equality
band; whole-particle permutation checks for re-ordering.
"""
import math

import numpy as np

from vsim.choices import digest
from vsim.runner import InvalidScenario

NAME = 'E-NNPS'
CRASHY = True
RUN_TIMEOUT = 25
# slowness is not stated by C01/C17: a run that exceeds the limit is counted (crashes_or_hangs), not reported
HANG_IS_VIOLATION = False
NO_SHRINK = {'cls', 'dim', 'knobs', 'radius_scale', 'qmodes'}

CLS = ['ll', 'box', 'dbox', 'sh', 'esh', 'ci', 'sfc', 'esfc', 'strat_hash', 'strat_sfc', 'tree', 'comp_tree']
REORDER = {'ll', 'box', 'ci', 'sfc', 'esfc', 'strat_sfc', 'tree', 'comp_tree'}

_COMMON = dict(
    sim_unit='update rounds',
    components=dict(real=['pysph/base/*_nnps.pyx, nnps_base.pyx (NNPS, NeighborCache), octree.pyx (compiled)',
                          'pysph/base/particle_array.pyx', 'real OpenMP threads for find_all_neighbors (static schedule: assignment is a function of the thread count)'],
                    simulated=['thread id of lazy cache fills (hook H2), drawn per query'],
                    fake=[], model=['brute-force neighbour oracle in Python floats', 'record multiset for re-ordering']),
    assumptions=['approximate=False for ExtendedSpatialHashNNPS (the approximate mode is documented as inexact)',
                 'number of cells bounded (<= ~2**20); an explicit RuntimeError refusing a huge grid is counted, not a wrong answer',
                 'pairs within a relative band of 1e-12 of the cut-off may go either way',
                 'fixed_h=True is only used with constant smoothing lengths'],
)
PROPS = {
    'C01': dict(_COMMON, rule=('one run = 1-3 particle arrays (0-150 particles, dim 1-3) from a drawn distribution, one NNPS class and knob '
                               'setting, and <= 10 rounds of move / h change / add / remove / cache toggle / re-order each followed by update and an '
                               'all-pairs query in a drawn mode (cached lazily in a drawn order, uncached, find_all_neighbors under a drawn thread '
                               'count, explicit or implicit context); non-trivial = some query returned a non-empty list; distinct = digest of '
                               '(class, knobs, distribution kinds, op kinds, sizes)'),
                quick=dict(runs=6000, budget_s=70), thorough=dict(runs=1500000, budget_s=1800)),
    'C17': dict(_COMMON, rule=('as C01 but every run uses a class implementing get_spatially_ordered_indices, arrays carry typed/strided '
                               'identity properties and non-local tags, and re-ordering rounds dominate; checked: index list is a permutation, '
                               'multiset of whole particles unchanged, Local particles first, queries exact after the next update'),
                quick=dict(runs=5000, budget_s=60), thorough=dict(runs=1000000, budget_s=1500)),
}
PROBES = {
    'C01': ['cell_occupied_in_one_array_only', 'particle_on_cell_face', 'degenerate_extent', 'cross_array_pair',
            'cache_lazy_fill', 'cache_fill_simulated_tid', 'cache_find_all_threads_gt1', 'implicit_context_switch', 'reorder_then_query',
            'empty_array_present', 'coincident_points', 'far_from_origin', 'h_decades', 'refused_too_many_cells',
            'band_pairs', 'added_particles', 'removed_particles', 'cache_toggled', 'cached_and_uncached_queries_share_output_array', 'nonlocal_tags_present',
            'same_pair_across_update_without_set_context'],
    'C17': ['reorder_with_nonlocal_tags', 'reorder_strided', 'repeated_reorder', 'reorder_then_query', 'reorder_empty_array',
            'solver_reorder_then_query_without_update', 'periodic_domain', 'reorder_with_domain_ghosts',
            'property_added_after_nnps_was_built', 'lb_props_restricted', 'in_parallel_flag_set'],
}


def prepare(prop, tier):
    from vsim import build
    build.activate()
    import pysph.base.nnps  # noqa
    import pysph.base.utils  # noqa
    import pysph.solver.solver  # noqa  (Solver.reorder_particles is one of the re-ordering entry points)


# ----------------------------------------------------------------------------
def _gen_points(t, dim, n, scale, origin, kind, hbase, line_axis=None):
    pts = []

    def coord(v):
        return [v[k] if k < dim else 0.0 for k in range(3)]
    if kind == 'uniform':
        for _ in range(n):
            pts.append(coord([origin[k] + scale * t.unit() for k in range(3)]))
    elif kind == 'clustered':
        nc = max(1, n // 8)
        centres = [[origin[k] + scale * t.unit() for k in range(3)] for _ in range(nc)]
        for _ in range(n):
            c = t.choice(centres)
            pts.append(coord([c[k] + hbase * 2 * (t.unit() - 0.5) for k in range(3)]))
    elif kind == 'lattice':
        # points on multiples of the cell size (cell faces for most structures)
        cs = 2.0 * hbase
        m = max(1, int(scale / cs))
        for _ in range(n):
            pts.append(coord([origin[k] + cs * t.int(0, m) for k in range(3)]))
    elif kind == 'collinear':
        # on a line along one coordinate axis (the structure is then one cell thick in the others) or along a diagonal
        ax = t.int(0, dim - 1)
        diag = t.bool(0.3)
        if line_axis is not None:
            ax, diag = line_axis, False
        for _ in range(n):
            s = t.unit()
            p = [origin[0], origin[1], origin[2]]
            for k in range(dim):
                if k == ax or diag:
                    p[k] = origin[k] + scale * s
            pts.append(coord(p))
    elif kind == 'coincident':
        base = [[origin[k] + scale * t.unit() for k in range(3)] for _ in range(t.int(1, 3))]
        for _ in range(n):
            pts.append(coord(list(t.choice(base))))
    else:
        for _ in range(n):
            pts.append(coord([origin[k] + scale * t.unit() for k in range(3)]))
    return pts


def gen(t, prop, tier):
    dim = t.wchoice([(1, 2), (2, 4), (3, 4)])
    if prop == 'C17':
        cls = t.wchoice([(c, 4 if c in ('ll', 'box', 'ci') else 1) for c in sorted(REORDER)])
    else:
        cls = t.wchoice([(c, 1 if c in ('sfc', 'esfc', 'strat_sfc') else 4) for c in CLS])
    knobs = {}
    if cls in ('esh', 'strat_hash'):
        knobs['H'] = t.choice([1, 2, 3])
    if cls in ('sfc', 'esfc'):
        knobs['H'] = 1 if cls == 'sfc' else t.choice([1, 2, 3])
        knobs['asymmetric'] = int(t.bool(0.4))
    if cls in ('strat_hash', 'strat_sfc'):
        knobs['num_levels'] = t.choice([1, 2, 3])
    if cls in ('sh', 'esh', 'strat_hash'):
        knobs['table_size'] = t.choice([131072, 131072, 1000, 257, 101, 64, 7])
    if cls in ('tree', 'comp_tree'):
        knobs['leaf_max_particles'] = t.choice([10, 1, 2, 5, 32])
    narr = t.wchoice([(1, 3), (2, 5), (3, 2)])
    far = t.bool(0.12)
    origin = [t.choice([0.0, -1.0, 1e3, -1e6, 1e6]) if far else t.choice([0.0, 0.0, -0.5, 3.0]) for _ in range(3)]
    # cells per dimension are bounded by choosing h relative to the extent
    maxcells = {1: 2000, 2: 120, 3: 30}[dim]
    scale = t.choice([1.0, 1.0, 0.1, 10.0, 1e-3, 100.0])
    ncell = t.choice([1, 2, 3, 5, 10, 20, 30, 100, 500])
    ncell = min(ncell, maxcells)
    hbase = scale / (2.0 * ncell)
    hvar = t.wchoice([('const', 4), ('mild', 4), ('decades', 2)])
    fixed_h = int(hvar == 'const' and t.bool(0.3))
    arrays = []
    # (C01) some arrays hold Remote / Ghost tagged particles, as a parallel run or a domain manager leaves them behind:
    # they are sources and destinations like any other particle
    tagged = (prop == 'C01' and t.bool(0.3))
    # now and then everything lies on one line along a coordinate axis: the whole structure is one cell thick elsewhere
    line_axis = t.int(0, dim - 1) if (dim > 1 and t.bool(0.05)) else None
    for a in range(narr):
        n = t.wchoice([(0, 2 if narr > 1 else 1), (1, 1), (2, 1), (5, 2), (12, 3), (40, 4), (90, 2), (150, 1)])
        kind = t.wchoice([('uniform', 5), ('clustered', 3), ('lattice', 3), ('collinear', 1), ('coincident', 1)])
        if line_axis is not None:
            kind = 'collinear'
        pts = _gen_points(t, dim, n, scale, origin, kind, hbase, line_axis)
        rows = []
        for p in pts:
            if hvar == 'const':
                h = hbase
            elif hvar == 'mild':
                h = hbase * t.choice([1.0, 0.8, 1.2, 1.5, 0.6])
            else:
                h = hbase * t.choice([1.0, 1.0, 0.3, 3.0, 0.1, 8.0])
            rows.append([p[0], p[1], p[2], h, t.wchoice([(0, 8), (1, 1), (2, 1)]) if (prop == 'C17' or tagged) else 0])
        arrays.append(dict(kind=kind, pts=rows))
    if not any(a['pts'] for a in arrays):
        arrays[0]['pts'] = [[origin[0], origin[1] if dim > 1 else 0.0, origin[2] if dim > 2 else 0.0, hbase, 0]]
    allp = [r for a in arrays for r in a['pts']]
    hmin = min(r[3] for r in allp)
    lim = {1: 5000, 2: 300, 3: 60}[dim]
    ext = max(max(r[k] for r in allp) - min(r[k] for r in allp) for k in range(dim))
    if max(max(r[k] for r in allp) - min(r[k] for r in allp) for k in range(3)) < 1e-12:
        ext = 1.0
    rs_max = 3.0
    if ext / (1.0 * hmin) > lim * 0.9:
        f = ext / (1.0 * hmin) / (lim * 0.9)
        for r in allp:
            r[3] *= f
        hbase *= f
    ops = []
    nops = t.choice([0, 1, 2, 4, 6, 10])
    for _ in range(nops):
        if prop == 'C17':
            k = t.wchoice([('reorder', 6), ('move', 3), ('add', 1), ('remove', 1), ('set_h', 1), ('toggle_cache', 1), ('solver_reorder', 3),
                           ('late_prop', 1), ('lb_props', 1)])
        else:
            k = t.wchoice([('move', 5), ('set_h', 2 if not fixed_h else 0), ('add', 3), ('remove', 3), ('toggle_cache', 2),
                           ('reorder', 2), ('noop', 1)])
        a = t.int(0, narr - 1)
        empties = [i for i, ar in enumerate(arrays) if not ar['pts']]
        if k == 'add' and empties and t.bool(0.6):
            a = t.choice(empties)       # an array that was empty when the structure was built gets its first particles
        op = dict(op=k, a=a)
        if k == 'move':
            op['moves'] = [[t.int(0, 200), t.wchoice([('jitter', 5), ('teleport', 2), ('face', 2)]),
                            (t.unit() - 0.5), (t.unit() - 0.5), (t.unit() - 0.5)] for _ in range(t.int(1, 12))]
        elif k == 'set_h':
            op['hs'] = [[t.int(0, 200), t.choice([0.5, 2.0, 1.1, 0.9, 3.0, 0.2] if hvar == 'decades' else [1.1, 0.9, 1.3, 0.7])]
                        for _ in range(t.int(1, 8))]
        elif k == 'add':
            kind = t.choice(['uniform', 'clustered', 'lattice'])
            pts = _gen_points(t, dim, t.int(1, 20), scale, origin, kind, hbase)
            op['pts'] = [[p[0], p[1], p[2], hbase * (1.0 if hvar == 'const' else t.choice([1.0, 0.7, 1.4, 2.5])), 0] for p in pts]
        elif k == 'remove':
            op['idx'] = [t.int(0, 200) for _ in range(t.int(1, 10))]
        ops.append(op)
    qmodes = [dict(mode=t.wchoice([('cached', 5), ('nocache', 2), ('find_all', 3), ('mixed', 2)]),
                   ctx=t.wchoice([('explicit', 3), ('implicit', 3)]), order_seed=t.int(0, 1 << 20), sim_tids=int(t.bool(0.5)))
              for _ in range(len(ops) + 1)]
    sc = dict(dim=dim, cls=cls, knobs=knobs, cache=int(t.bool(0.6)) if cls != 'dbox' else 0, sort_gids=int(t.bool(0.4)), fixed_h=fixed_h,
              radius_scale=t.choice([2.0, 2.0, 3.0, 1.0, 2.5]), nthreads=t.choice([1, 1, 2, 3, 4, 8]),
              valid_gids=int(t.bool(0.5)), scale=scale, hbase=hbase, arrays=arrays, ops=ops, qmodes=qmodes)
    if prop == 'C17' and hvar != 'decades' and t.bool(0.3):
        # a periodic box around the particles: the arrays then also hold the domain manager's ghost particles
        ax = [int(k < dim and t.bool(0.7)) for k in range(3)]
        if not any(ax):
            ax[0] = 1
        sc['periodic'] = ax
    sc['in_parallel'] = int(prop == 'C17' and t.bool(0.15))
    return sc


def needs_isolation(sc):
    # Every run gets its own forked child: (a) classes with recorded memory-safety findings must
    # not leak heap corruption into later runs of the same worker, and (b) a worker that has
    # executed an OpenMP region cannot fork usable children (libgomp is not fork-safe), so the
    # worker itself never executes a scenario.
    return True


def sig_of(sc):
    d = dict(cls=sc.get('cls'), dim=sc.get('dim'), narrays=len(sc.get('arrays', [])), knobs=sc.get('knobs', {}))
    try:
        dim = int(sc.get('dim', 3))
        pts = [r for a in sc.get('arrays', []) for r in a.get('pts', [])]
        for a in sc.get('ops', []):
            if isinstance(a, dict) and a.get('op') == 'add':
                pts += [r for r in a.get('pts', []) if len(r) >= 4]
        ext = [max(r[k] for r in pts) - min(r[k] for r in pts) for k in range(dim)] if pts else [0.0]
        # a flat direction inside the problem's dimensions (all particles share that coordinate)
        d['flat_axis'] = bool(pts) and any(e < 1e-12 for e in ext)
    except Exception:
        d['flat_axis'] = None
    return d


# ----------------------------------------------------------------------------
def _make_nnps(sc, particles, domain=None):
    from pysph.base import nnps as N
    cls = sc['cls']
    kn = dict(sc.get('knobs') or {})
    kw = dict(dim=int(sc['dim']), particles=particles, radius_scale=float(sc.get('radius_scale', 2.0)),
              cache=bool(sc.get('cache')), sort_gids=bool(sc.get('sort_gids')))
    if domain is not None:
        kw['domain'] = domain
    fh = bool(sc.get('fixed_h'))
    if cls == 'll':
        return N.LinkedListNNPS(fixed_h=fh, **kw)
    if cls == 'box':
        return N.BoxSortNNPS(fixed_h=fh, **kw)
    if cls == 'dbox':
        return N.DictBoxSortNNPS(**kw)
    if cls == 'sh':
        return N.SpatialHashNNPS(fixed_h=fh, table_size=int(kn.get('table_size', 131072)), **kw)
    if cls == 'esh':
        return N.ExtendedSpatialHashNNPS(fixed_h=fh, H=int(kn.get('H', 3)), table_size=int(kn.get('table_size', 131072)),
                                         approximate=False, **kw)
    if cls == 'ci':
        return N.CellIndexingNNPS(fixed_h=fh, **kw)
    if cls == 'sfc':
        return N.ZOrderNNPS(fixed_h=fh, asymmetric=bool(kn.get('asymmetric')), **kw)
    if cls == 'esfc':
        return N.ExtendedZOrderNNPS(fixed_h=fh, H=int(kn.get('H', 3)), asymmetric=bool(kn.get('asymmetric')), **kw)
    if cls == 'strat_hash':
        return N.StratifiedHashNNPS(fixed_h=fh, H=int(kn.get('H', 1)), num_levels=int(kn.get('num_levels', 1)),
                                    table_size=int(kn.get('table_size', 131072)), **kw)
    if cls == 'strat_sfc':
        # (its __cinit__ does not accept the `asymmetric` keyword of __init__, so the knob cannot be passed)
        return N.StratifiedSFCNNPS(fixed_h=fh, num_levels=int(kn.get('num_levels', 1)), **kw)
    if cls == 'tree':
        return N.OctreeNNPS(fixed_h=fh, leaf_max_particles=int(kn.get('leaf_max_particles', 10)), **kw)
    if cls == 'comp_tree':
        return N.CompressedOctreeNNPS(fixed_h=fh, leaf_max_particles=int(kn.get('leaf_max_particles', 10)), **kw)
    raise InvalidScenario('cls')


def _rows(spec):
    rows = []
    for r in spec.get('pts', []):
        try:
            x, y, z, h = float(r[0]), float(r[1]), float(r[2]), float(r[3])
            tag = int(r[4]) % 3 if len(r) > 4 else 0
        except Exception:
            raise InvalidScenario('row')
        if not (h > 0) or not all(math.isfinite(v) for v in (x, y, z, h)):
            raise InvalidScenario('row value')
        rows.append((x, y, z, h, tag))
    return rows


class W(object):
    pass


def _ident_cols(ids):
    ids = np.asarray(ids, dtype=np.int64)
    return dict(ident=ids, fv=np.repeat(ids, 3).astype(np.float32) + np.tile(np.arange(3, dtype=np.float32), len(ids)),
                iv=(-3 * ids).astype(np.int32), m9=(np.repeat(ids, 9) * 10.0 + np.tile(np.arange(9.0), len(ids))),
                nz=np.where(ids % 3 == 0, -0.0, 0.0), nn=np.where(ids % 4 == 1, np.nan, 1.0).astype(np.float32))


def _build_array(w, name, rows, dim, valid_gids, with_ident):
    from pysph.base.utils import get_particle_array
    from pysph.base.particle_array import ParticleArray
    n = len(rows)
    x = np.array([r[0] for r in rows], dtype=float)
    y = np.array([r[1] for r in rows], dtype=float)
    z = np.array([r[2] for r in rows], dtype=float)
    h = np.array([r[3] for r in rows], dtype=float)
    tag = np.array([r[4] for r in rows], dtype=np.int32)
    ids = np.arange(w.next_id, w.next_id + n)
    w.next_id += n
    pa = get_particle_array(name=name, x=x, y=y, z=z, h=h, tag=tag, m=np.ones(n))
    if n == 0:
        pa = get_particle_array(name=name, x=x, y=y, z=z, h=h)
    if with_ident:
        cols = _ident_cols(ids)
        pa.add_property('ident', type='long', data=cols['ident'] if n else None)
        pa.add_property('fv', type='float', stride=3, data=cols['fv'] if n else None)
        pa.add_property('iv', type='int', data=cols['iv'] if n else None)
        pa.add_property('m9', type='double', stride=9, data=cols['m9'] if n else None)
        # properties that are uniform up to the sign of zero / up to NaN entries
        pa.add_property('nz', type='double', data=cols['nz'] if n else None)
        pa.add_property('nn', type='float', data=cols['nn'] if n else None)
        # the constructor aligned by tag before ident was attached: identities
        # are attached in storage order, which is all that matters
    if valid_gids and n:
        g = pa.get('gid', only_real_particles=False)
        g[:] = (ids % (1 << 31)).astype(np.uint32)
    return pa


def _arr(pa, p):
    return pa.get(p, only_real_particles=False)


def _oracle(src, dst, rs):
    """for every dst particle: (must set, may set) of src indices"""
    sx, sy, sz, sh = (np.asarray(_arr(src, p), dtype=float) for p in 'xyzh')
    dx, dy, dz, dh = (np.asarray(_arr(dst, p), dtype=float) for p in 'xyzh')
    out = []
    ns = len(sx)
    for i in range(len(dx)):
        if ns == 0:
            out.append((set(), set()))
            continue
        d2 = (sx - dx[i]) ** 2 + (sy - dy[i]) ** 2 + (sz - dz[i]) ** 2
        hm = np.maximum(sh, dh[i]) * rs
        c2 = hm * hm
        must = np.nonzero(d2 < c2 * (1 - 1e-12))[0]
        may = np.nonzero(d2 <= c2 * (1 + 1e-12))[0]
        out.append((set(must.tolist()), set(may.tolist())))
    return out


def _check_reorder_state(w, ai, before, what):
    pa = w.particles[ai]
    after = _records(pa)
    if sorted(before) != sorted(after):
        miss = [r for r in before if r not in after][:1]
        extra = [r for r in after if r not in before][:1]
        w.violate('reorder-not-a-permutation-of-particles',
                  'array %d after %s: particle records changed; lost %r gained %r' % (ai, what, miss, extra), phase=what)
        return
    tags = _arr(pa, 'tag')
    nloc = int((tags == 0).sum())
    if pa.num_real_particles != nloc or (tags[:nloc] != 0).any():
        w.violate('reorder-real-particles-not-first',
                  'array %d after %s: tags are %r, num_real_particles=%d' % (ai, what, tags[:30].tolist(), pa.num_real_particles),
                  phase=what)


def _records(pa):
    n = pa.get_number_of_particles()
    cols = {}
    for p, a in pa.properties.items():
        cols[p] = a.get_npy_array()
    recs = []
    for i in range(n):
        r = []
        for p in sorted(cols):
            s = len(cols[p]) // n
            v = cols[p][i * s:(i + 1) * s]
            # bit patterns, so that NaN equals NaN and -0.0 differs from 0.0
            r.append((p, tuple(v.tolist()) if v.dtype.kind in 'iu' else v.tobytes()))
        recs.append(tuple(r))
    return recs


def execute(sc, prop):
    from cyarray.api import UIntArray, LongArray
    from pysph.base.nnps_base import set_number_of_threads
    from pysph.base.nnps_base import _verif_set_tid as _set_tid
    try:
        dim = int(sc['dim'])
        cls = sc['cls']
        specs = sc['arrays']
        ops = sc.get('ops', [])
        rs = float(sc.get('radius_scale', 2.0))
        assert dim in (1, 2, 3) and cls in CLS and isinstance(specs, list) and 1 <= len(specs) <= 3
    except Exception as e:
        raise InvalidScenario(repr(e))
    kn = sc.get('knobs') or {}
    if (int(kn.get('H', 1)) < 1 or int(kn.get('num_levels', 1)) < 1 or int(kn.get('leaf_max_particles', 1)) < 1
            or int(kn.get('table_size', 1)) < 1 or not (0.5 <= rs <= 4.0)):
        raise InvalidScenario('knobs')
    if prop == 'C17' and cls not in REORDER:
        raise InvalidScenario('class does not re-order')
    w = W()
    w.viol = []
    w.probes = {}
    w.next_id = 1

    def probe(n, k=1):
        w.probes[n] = w.probes.get(n, 0) + k

    def violate(inv, detail, **sig):
        if len(w.viol) < 4:
            s = sig_of(sc)
            s.update(sig)
            w.viol.append(dict(invariant=inv, detail=detail, sig=s,
                               **{'class': '%s %s %s' % (inv, sc.get('cls'), s.get('pair', ''))}))
    w.violate = violate
    with_ident = True
    rowsets = [_rows(s) for s in specs]
    if sum(len(r) for r in rowsets) == 0:
        raise InvalidScenario('no particles at all')
    # bound the grid
    allp = [r for rows in rowsets for r in rows]
    hmin = min(r[3] for r in allp)
    exts = [max(r[k] for r in allp) - min(r[k] for r in allp) for k in range(3)]
    if all(e < 1e-12 for e in exts):
        exts = [1.0] * 3        # the structures fall back to a unit box
        degenerate = True
    else:
        degenerate = False
    for k in range(dim):
        if exts[k] * 1.02 / (rs * hmin) > {1: 5000, 2: 300, 3: 60}[dim]:
            raise InvalidScenario('grid too large')
    if dim < 3 and any(r[2] != 0.0 for r in allp) or dim < 2 and any(r[1] != 0.0 for r in allp):
        raise InvalidScenario('coordinates beyond dim')
    nthreads = max(1, min(16, int(sc.get('nthreads', 1))))
    set_number_of_threads(nthreads)
    valid_gids = bool(sc.get('valid_gids'))
    w.particles = [_build_array(w, 'a%d' % i, rows, dim, valid_gids, with_ident) for i, rows in enumerate(rowsets)]
    if any(len(r) == 0 for r in rowsets):
        probe('empty_array_present')
    if degenerate:
        probe('degenerate_extent')
    if any(abs(r[0]) >= 1e3 for r in allp):
        probe('far_from_origin')
    if max(r[3] for r in allp) / hmin >= 10:
        probe('h_decades')
    if any(s.get('kind') == 'coincident' for s in specs):
        probe('coincident_points')
    if any(s.get('kind') == 'lattice' for s in specs):
        probe('particle_on_cell_face')
    narr = len(w.particles)
    if narr > 1:
        probe('cross_array_pair')
    if any(r[4] != 0 for r in allp):
        probe('nonlocal_tags_present')
    refused = False
    dom = None
    hcap = None
    per = sc.get('periodic')
    if per:
        try:
            ax = [bool(int(v)) for v in per][:3]
            assert len(ax) == 3 and any(ax[:dim]) and not any(ax[dim:])
        except Exception:
            raise InvalidScenario('periodic axes')
        if prop != 'C17' or cls not in REORDER:
            raise InvalidScenario('periodic boxes are drawn for C17 only')
        hmax0 = max(r[3] for r in allp)
        if hmax0 / hmin > 3.0:
            raise InvalidScenario('periodic box with h over decades')
        pad = 4.0 * rs * hmax0
        hcap = 1.5 * hmax0
        lo = [min(r[k] for r in allp) - pad for k in range(3)]
        hi = [max(r[k] for r in allp) + pad for k in range(3)]
        from pysph.base.nnps import DomainManager
        dom = DomainManager(xmin=lo[0], xmax=hi[0], ymin=lo[1] if dim > 1 else 0.0, ymax=hi[1] if dim > 1 else 0.0,
                            zmin=lo[2] if dim > 2 else 0.0, zmax=hi[2] if dim > 2 else 0.0,
                            periodic_in_x=ax[0], periodic_in_y=ax[1], periodic_in_z=ax[2])
        probe('periodic_domain')
    try:
        nnps = _make_nnps(sc, w.particles, dom)
        if sc.get('in_parallel') and dom is None:
            # the flag a distributed run sets (the parallel manager then owns the domain ghosts); a plain domain has none
            nnps.set_in_parallel(True)
            probe('in_parallel_flag_set')
        nnps.update_domain()
        nnps.update()
    except RuntimeError as e:
        if 'too many' in str(e).lower() or 'cells' in str(e).lower():
            probe('refused_too_many_cells')
            return dict(violations=[], digest=digest(repr(('refused', cls))), nontrivial=False, faults={}, probes=w.probes,
                        sim=0.0, inconclusive=True)
        raise
    qmodes = sc.get('qmodes') or [{}]
    nonempty = [0]
    kinds = []
    use_cache = [bool(sc.get('cache')) and cls != 'dbox']
    first_ctx = [True]
    last_pair = [None]

    def query_round(qi, what):
        qm = qmodes[qi % len(qmodes)] if isinstance(qmodes[qi % len(qmodes)], dict) else {}
        mode = qm.get('mode', 'cached')
        ctx = qm.get('ctx', 'explicit')
        rng = np.random.RandomState(int(qm.get('order_seed', 0)) % (1 << 31))
        nb = UIntArray()
        pairs = [(s, d) for d in range(narr) for s in range(narr)]
        rng.shuffle(pairs)
        if ctx == 'implicit' and last_pair[0] in pairs:
            # ask first for the pair that was asked last before the update: the structure then keeps its context across the update
            pairs.remove(last_pair[0])
            pairs.insert(0, last_pair[0])
            probe('same_pair_across_update_without_set_context')
        for (s, d) in pairs:
            last_pair[0] = (s, d)
            src, dst = w.particles[s], w.particles[d]
            nd = dst.get_number_of_particles()
            ns = src.get_number_of_particles()
            orc = _oracle(src, dst, rs)
            if s != d and ns and nd:
                cs = rs * max(float(_arr(src, 'h').max()), float(_arr(dst, 'h').max()))
                def cells(pa):
                    return set(zip(*[np.floor(np.asarray(_arr(pa, c)) / cs).astype(np.int64).tolist() for c in 'xyz']))
                if cells(dst) - cells(src):
                    probe('cell_occupied_in_one_array_only')
            if ctx == 'explicit' or first_ctx[0] or mode == 'nocache' or not use_cache[0]:
                nnps.set_context(s, d)
                first_ctx[0] = False
            else:
                probe('implicit_context_switch')
            if use_cache[0] and mode == 'find_all' and nd > 0:
                nnps.set_context(s, d)
                nnps.cache[d * narr + s].find_all_neighbors()
                if nthreads > 1:
                    probe('cache_find_all_threads_gt1')
            order = list(range(nd))
            rng.shuffle(order)
            if mode == 'mixed':
                order = order + order       # every destination is asked again after the cache has been filled
            sim_tids = bool(qm.get('sim_tids')) and use_cache[0] and mode == 'cached' and nthreads > 1
            for i in order:
                if mode == 'nocache' or not use_cache[0] or (mode == 'mixed' and rng.randint(3) == 0):
                    # (in mixed mode the same output array serves cached and uncached queries in turn)
                    if mode == 'mixed':
                        probe('cached_and_uncached_queries_share_output_array')
                    nnps.get_nearest_particles_no_cache(s, d, i, nb, False)
                else:
                    if mode == 'cached':
                        probe('cache_lazy_fill')
                    if sim_tids:
                        # hook H2: the lazy fill of this destination happens "on" a drawn simulated thread, so the entries
                        # of one (dst, src) cache end up spread over the per-thread arrays in a seeded order
                        _set_tid(int(rng.randint(nthreads)))
                        probe('cache_fill_simulated_tid')
                    nnps.get_nearest_particles(s, d, i, nb)
                    if sim_tids:
                        _set_tid(-1)
                got = nb.get_npy_array().copy()
                if len(got):
                    nonempty[0] += 1
                lst = got.tolist()
                must, may = orc[i]
                if len(may) != len(must):
                    probe('band_pairs')
                sg = dict(pair='same' if s == d else 'cross', mode=mode, after=what)
                if any(j >= ns for j in lst):
                    violate('index-out-of-range', '%s: query(src=%d,dst=%d,i=%d) returned index >= %d: %r' % (what, s, d, i, ns, lst[:20]), **sg)
                    return
                st = set(lst)
                if len(st) != len(lst):
                    dup = sorted(j for j in st if lst.count(j) > 1)[:5]
                    violate('duplicate-neighbours', '%s: query(src=%d,dst=%d,i=%d) returned duplicates %r' % (what, s, d, i, dup), **sg)
                    return
                missing = must - st
                if missing:
                    violate('missing-neighbours', '%s: query(src=%d,dst=%d,i=%d) [%s] misses %r (returned %d, true %d)'
                            % (what, s, d, i, mode, sorted(missing)[:6], len(lst), len(must)), **sg)
                    return
                extra = st - may
                if extra:
                    violate('extra-neighbours', '%s: query(src=%d,dst=%d,i=%d) [%s] returned non-neighbours %r'
                            % (what, s, d, i, mode, sorted(extra)[:6]), **sg)
                    return

    def grid_ok():
        lim = {1: 5000, 2: 300, 3: 60}[dim]
        hm = min([float(_arr(p, 'h').min()) for p in w.particles if p.get_number_of_particles()] or [1.0])
        for kk, c in enumerate('xyz'[:dim]):
            vals = [(_arr(p, c).min(), _arr(p, c).max()) for p in w.particles if p.get_number_of_particles()]
            if not vals:
                return False
            e = max(v[1] for v in vals) - min(v[0] for v in vals)
            if e < 1e-12:
                e = 1.0
            if e * 1.02 / (rs * hm) > lim:
                return False
        return True

    query_round(0, 'initial update')
    rounds = 1
    nreorder = 0
    for oi, op in enumerate(ops[:12]):
        if w.viol:
            break
        if not isinstance(op, dict):
            continue
        k = op.get('op')
        ai = int(op.get('a', 0)) % narr
        pa = w.particles[ai]
        n = pa.get_number_of_particles()
        scale = float(sc.get('scale', 1.0))
        hbase = float(sc.get('hbase', 0.1))
        what = k
        if k == 'move':
            if n == 0:
                continue
            x, y, z = _arr(pa, 'x'), _arr(pa, 'y'), _arr(pa, 'z')
            for mv in op.get('moves', []):
                try:
                    i, how, a, b, c = int(mv[0]) % n, mv[1], float(mv[2]), float(mv[3]), float(mv[4])
                except Exception:
                    continue
                amp = hbase * 2 if how == 'jitter' else scale
                if how == 'face':
                    cs = 2.0 * hbase
                    x[i] = round(x[i] / cs) * cs
                    if dim > 1:
                        y[i] = round(y[i] / cs) * cs
                    probe('particle_on_cell_face')
                else:
                    x[i] += amp * a
                    if dim > 1:
                        y[i] += amp * b
                    if dim > 2:
                        z[i] += amp * c
        elif k == 'set_h':
            if n == 0 or sc.get('fixed_h'):
                continue
            h = _arr(pa, 'h')
            for e in op.get('hs', []):
                try:
                    i, f = int(e[0]) % n, float(e[1])
                except Exception:
                    continue
                if 0.05 <= f <= 20:
                    h[i] = min(max(h[i] * f, hbase * 0.05), hbase * 20)
                    if hcap is not None:
                        h[i] = min(h[i], hcap)
        elif k == 'add':
            rows = _rows(op)
            if not rows:
                continue
            if sc.get('fixed_h'):
                rows = [(r[0], r[1], r[2], hbase, r[4]) for r in rows]
            ids = np.arange(w.next_id, w.next_id + len(rows))
            w.next_id += len(rows)
            cols = _ident_cols(ids)
            kw = dict(x=np.array([r[0] for r in rows]), y=np.array([r[1] if dim > 1 else 0.0 for r in rows]),
                      z=np.array([r[2] if dim > 2 else 0.0 for r in rows]), h=np.array([r[3] for r in rows]),
                      ident=cols['ident'], fv=cols['fv'], iv=cols['iv'], m9=cols['m9'], nz=cols['nz'], nn=cols['nn'])
            if valid_gids:
                kw['gid'] = (ids % (1 << 31)).astype(np.uint32)
            pa.add_particles(**kw)
            probe('added_particles')
        elif k == 'remove':
            if n == 0:
                continue
            idx = sorted(set(int(i) % n for i in op.get('idx', []) if isinstance(i, int)))
            if not idx or len(idx) >= n + 1:
                continue
            pa.remove_particles(idx)
            probe('removed_particles')
        elif k == 'toggle_cache':
            if cls == 'dbox':
                continue        # DictBoxSortNNPS documents that it cannot use the cache
            use_cache[0] = not use_cache[0]
            nnps.set_use_cache(use_cache[0])
            probe('cache_toggled')
        elif k == 'reorder':
            if cls not in REORDER:
                continue
            before = _records(pa)
            tags = _arr(pa, 'tag')
            if n and (tags != 0).any():
                probe('reorder_with_nonlocal_tags')
            if dom is not None and n and (tags == 2).any():
                probe('reorder_with_domain_ghosts')
            if n == 0:
                probe('reorder_empty_array')
            probe('reorder_strided')
            idxs = LongArray()
            nnps.get_spatially_ordered_indices(ai, idxs)
            il = idxs.get_npy_array().tolist()
            if sorted(il) != list(range(n)):
                violate('ordered-indices-not-a-permutation',
                        'get_spatially_ordered_indices(array %d) returned %r for %d particles' % (ai, il[:30], n), phase='indices')
                break
            nnps.spatially_order_particles(ai)
            _check_reorder_state(w, ai, before, 'spatially_order_particles')
            nreorder += 1
            if nreorder > 1:
                probe('repeated_reorder')
            if w.viol:
                break
            # Solver.reorder_particles follows the permutation with a domain and nnps update
        elif k == 'late_prop':
            # a property added after the neighbour structure was built (from a callback, for post-processing)
            name = 'late%d' % (oi % 3)
            if name in pa.properties:
                continue
            stride = 1 + (oi % 2) * 2
            ids_now = _arr(pa, 'ident')
            pa.add_property(name, type='double', stride=stride,
                            data=(np.repeat(ids_now, stride) * 0.5 + np.tile(np.arange(float(stride)), len(ids_now))) if n else None)
            probe('property_added_after_nnps_was_built')
        elif k == 'lb_props':
            # the load-balancing property list (what is exchanged between processes) has nothing to do with re-ordering
            pa.set_lb_props(['x', 'y', 'z', 'h'])
            probe('lb_props_restricted')
        elif k == 'solver_reorder':
            if cls not in REORDER:
                continue
            import types
            import pysph.solver.solver as SM
            befores = [_records(p) for p in w.particles]
            if dom is not None and any((_arr(p, 'tag') == 2).any() for p in w.particles if p.get_number_of_particles()):
                probe('reorder_with_domain_ghosts')
            # the real method on a minimal `self`: re-orders every array and updates the neighbour structure itself
            SM.Solver.reorder_particles(types.SimpleNamespace(particles=w.particles, nnps=nnps))
            for j in range(narr):
                _check_reorder_state(w, j, befores[j], 'Solver.reorder_particles')
            nreorder += 1
            if nreorder > 1:
                probe('repeated_reorder')
            if w.viol:
                break
            kinds.append(k)
            probe('solver_reorder_then_query_without_update')
            query_round(oi + 1, 'directly after Solver.reorder_particles (array %d, round %d)' % (ai, rounds))
            rounds += 1
            continue
        elif k == 'noop':
            pass
        else:
            continue
        kinds.append(k)
        if not grid_ok():
            probe('stopped_grid_beyond_bound')
            break
        try:
            nnps.update_domain()
            nnps.update()
        except RuntimeError as e:
            if 'cells' in str(e).lower():
                probe('refused_too_many_cells')
                break
            raise
        if k == 'reorder':
            probe('reorder_then_query')
            _check_reorder_state(w, ai, _records(pa), 'update after re-ordering')
        query_round(oi + 1, 'after %s on array %d (round %d)' % (k, ai, rounds))
        rounds += 1
    shape = (cls, sorted((sc.get('knobs') or {}).items()), dim, [s.get('kind') for s in specs], kinds,
             [len(r) for r in rowsets], bool(sc.get('cache')), bool(sc.get('sort_gids')), bool(per))
    viol = w.viol
    if prop == 'C17':
        # C17 decides on its own invariants; a pure neighbour-set violation with no
        # re-ordering in the history belongs to C01
        if nreorder == 0:
            viol = [v for v in viol if v['invariant'].startswith(('reorder', 'ordered'))]
    return dict(violations=viol, digest=digest(repr(shape)), nontrivial=nonempty[0] > 0,
                faults={k_: w.probes[k_] for k_ in ('cache_fill_simulated_tid', 'cache_find_all_threads_gt1') if w.probes.get(k_)}, probes=w.probes,
                sim=float(rounds), inconclusive=False,
                stratum='%s/%s/%s' % (cls, 'cross' if narr > 1 else 'single', dim))
