"""E-OMP: whole simulations through the Application front end under option
swarms and simulated OpenMP schedules (C05; C09 monitor lives in e_cons.py).

Real: Application (option parsing, scheme/solver/NNPS set-up), Solver.solve,
generated acceleration evaluation + integrator code, every CPU NNPS, the
neighbour cache, Solver.reorder_particles.  Three build kinds of the generated
code: serial, real OpenMP, simulated schedule (hooks H1/H2 + vsim.omp_sim).
Oracle: relations to a baseline run (ll, no cache, serial, no re-ordering).
"""
import os
import pickle
import signal
import sys
import time
import traceback

import numpy as np

from vsim.choices import digest
from vsim.runner import InvalidScenario

NAME = 'E-OMP'
CRASHY = False          # every Application run already happens in its own forked child
RUN_TIMEOUT = 600
NO_SHRINK = {'problem', 'nx', 'steps'}

PROBLEMS = {'drop': [6, 8, 10], 'cavity': [5, 6, 8], 'tg': [6, 8, 10], 'sod': [20, 40, 60], 'adapth': [8, 10, 12], 'impact': [6, 8, 10], 'tg_gtvf': [6, 8]}
NNPS = ['ll', 'box', 'sh', 'esh', 'ci', 'sfc', 'tree', 'comp_tree', 'strat_hash', 'strat_sfc']
# the classes that implement get_spatially_ordered_indices; the others refuse --reorder-freq with NotImplementedError
REORDER = {'ll', 'box', 'ci', 'sfc', 'strat_sfc', 'tree', 'comp_tree'}
STATE_PROPS = ['x', 'y', 'z', 'u', 'v', 'w', 'rho', 'p', 'h', 'm', 'e']

PROPS = {
    'C05': dict(
        rule=('one run = one shipped problem (free-surface elliptical drop / wall-bounded cavity with two arrays / periodic Taylor-Green / 1-D shock tube in a mirror domain with variable h / a free-surface block whose h changes inside the evaluation, nested update_nnps groups / a fluid block that reaches a fixed bed only after some steps) '
              'run through Application.run with a drawn configuration (--nnps and its knobs, --cache-nnps, --sort-gids, --reorder-freq, '
              'valid or invalid gids, and the schedule: serial, real OpenMP with 1-16 threads, or the simulated scheduler with k threads, '
              'drawn chunking / chunk-to-thread assignment / global execution order) compared with a baseline run (ll, no cache, serial, '
              'no re-ordering); non-trivial = the configuration differs from the baseline; distinct = digest of the configuration'),
        sim_unit='Application runs (incl. baselines and repeats)',
        components=dict(real=['pysph/solver/application.py, solver.py (real Application.run)', 'generated acceleration-eval and integrator code',
                              'all CPU NNPS classes + NeighborCache', 'Solver.reorder_particles / NNPS.spatially_order_particles'],
                        simulated=['OpenMP loop schedule of the generated code and the cache thread id (hooks H1/H2, vsim.omp_sim): iteration '
                                   'granularity'],
                        real_not_owned=['real OpenMP runs (libgomp decides the interleaving; outcome must still be identical)'],
                        fake=[]),
        assumptions=['R1: with --sort-gids and no re-ordering results are bit-identical to the baseline; R2: otherwise equal per '
                     'particle (matched by an identity property) within 1e-7 of the field scale after <= 8 steps; R3: the same options twice '
                     'in fresh processes are bit-identical',
                     'interference inside one loop iteration (two real threads at the same instant) is below the resolution of the simulated '
                     'scheduler; real-OpenMP runs cover it by outcome only'],
        quick=dict(runs=420, budget_s=150),
        thorough=dict(runs=60000, budget_s=2400),
    ),
}
PROBES = {'C05': ['sim_schedule_runs', 'real_openmp_runs', 'cache_on', 'sorted_runs', 'reorder_runs', 'reorder_on_periodic',
                  'cross_thread_cache_use', 'write_set_chunks_checked', 'bit_identical_checked', 'repeat_checked',
                  'multi_array_problem', 'reorder_on_mirror', 'arrays_start_to_interact_late', 'sorted_with_partly_valid_gids',
                  'reorder_with_an_integrator_that_starts_without_refresh']}

_BASE = {}


def _outdir():
    d = os.path.join(os.environ.get('VERIF_CACHE', '/root/.cache/pysph_verif'), 'omp_out', str(os.getpid()))
    os.makedirs(d, exist_ok=True)
    return d


def _child_run(cfg):
    """runs one Application in this (forked) process; returns {array: {prop: values sorted by identity}}"""
    kind = cfg.get('kind', 'serial')
    for k in ('PYSPH_VERIF_SCHED', 'PYSPH_VERIF_SCHED_MODULE'):
        os.environ.pop(k, None)
    if kind == 'sim':
        os.environ['PYSPH_VERIF_SCHED'] = '1'
        os.environ['PYSPH_VERIF_SCHED_MODULE'] = 'vsim.omp_sim'
    from pysph.base.nnps_base import set_number_of_threads
    from engines import omp_problems as P
    from vsim import omp_sim
    threads = max(1, min(16, int(cfg.get('threads', 1))))
    set_number_of_threads(threads if kind in ('omp', 'sim') else 1)
    argv = P.problem_args(cfg['problem'], int(cfg['nx']))
    app = P.make_app(cfg['problem'], int(cfg.get('valid_gids') or 0))
    argv += ['--max-steps', str(int(cfg['steps'])), '--disable-output', '--directory', _outdir(), '--quiet',
             '--nnps', cfg.get('nnps', 'll')]
    argv += ['--openmp'] if kind == 'omp' else ['--no-openmp']
    if cfg.get('cache'):
        argv += ['--cache-nnps']
    if cfg.get('sort_gids'):
        argv += ['--sort-gids']
    if cfg.get('reorder'):
        argv += ['--reorder-freq', str(int(cfg['reorder']))]
    kn = cfg.get('knobs') or {}
    if 'H' in kn:
        argv += ['--spatial-hash-sub-factor', str(int(kn['H']))]
    if 'table_size' in kn:
        argv += ['--spatial-hash-table-size', str(int(kn['table_size']))]
    if 'num_levels' in kn:
        argv += ['--stratified-grid-num-levels', str(int(kn['num_levels']))]
    if 'leaf' in kn:
        argv += ['--tree-leaf-max-particles', str(int(kn['leaf']))]
    if kind == 'sim':
        omp_sim.SCHED.configure(threads, int(cfg.get('sched_seed', 0)), cfg.get('policy', 'mixed'))
    app.setup(argv)
    if kind == 'sim':
        omp_sim.SCHED.watch = list(app.particles)
        omp_sim.SCHED.check_prob = float(cfg.get('check_prob', 0.0))
    app.solve()
    out = {}
    for pa in app.particles:
        tags = pa.get('tag', only_real_particles=False)
        real = np.nonzero(tags == 0)[0]
        ident = pa.get('ident', only_real_particles=False)[real]
        order = np.argsort(ident, kind='stable')
        d = {'ident': ident[order].copy(), 'nreal_first': bool(len(real) == pa.num_real_particles and (tags[:len(real)] == 0).all())}
        trip = pa.get('trip', only_real_particles=False).reshape(-1, 3)[real][order]
        d['trip_ok'] = bool(np.array_equal(trip, ident[order].astype(float)[:, None] + np.array([0.0, 0.25, 0.5])[None, :]))
        for p in STATE_PROPS:
            if p in pa.properties:
                d[p] = pa.get(p, only_real_particles=False)[real][order].copy()
        out[pa.name] = d
    st = omp_sim.SCHED.stats
    info = dict(loops=st['loops'], chunks=st['chunks'], tids=len(st['tids_used']), checked=st['checked_chunks'],
                write_set=list(omp_sim.SCHED.violations))
    return out, info


def run_app(cfg, timeout=300):
    """fork, run, and bring the arrays back; ('ok', (arrays, info)) | ('crash'|'hang'|'error', text)"""
    r, w = os.pipe()
    pid = os.fork()
    if pid == 0:
        os.close(r)
        try:
            dn = os.open(os.devnull, os.O_WRONLY)
            if not os.environ.get('VERIF_DEBUG'):
                os.dup2(dn, 1)
                os.dup2(dn, 2)
            try:
                res = ('ok', _child_run(cfg))
            except Exception:
                res = ('error', traceback.format_exc())
            with os.fdopen(w, 'wb') as f:
                pickle.dump(res, f, protocol=4)
        finally:
            os._exit(0)
    os.close(w)
    import select
    data = b''
    f = os.fdopen(r, 'rb')
    t0 = time.time()
    hang = False
    while True:
        left = timeout - (time.time() - t0)
        if left <= 0:
            hang = True
            break
        rl, _, _ = select.select([f], [], [], min(left, 1.0))
        if rl:
            chunk = os.read(f.fileno(), 1 << 20)
            if not chunk:
                break
            data += chunk
    if hang:
        try:
            os.kill(pid, signal.SIGKILL)
        except OSError:
            pass
    _, st = os.waitpid(pid, 0)
    f.close()
    if hang:
        return ('hang', 'no result within %d s' % timeout)
    if data:
        try:
            return pickle.loads(data)
        except Exception:
            pass
    if os.WIFSIGNALED(st):
        return ('crash', 'killed by signal %d' % os.WTERMSIG(st))
    return ('crash', 'exit status %d without a result' % st)


def run_app_fresh(cfg, hashseed, timeout=600):
    import json
    import subprocess
    import tempfile
    env = dict(os.environ)
    env['PYTHONHASHSEED'] = str(max(1, hashseed))
    env['HOME'] = os.environ.get('VERIF_REAL_HOME', env.get('HOME', '/root'))
    for k in ('PYSPH_VERIF', 'PYSPH_VERIF_SCHED', 'PYSPH_VERIF_SCHED_MODULE'):
        env.pop(k, None)
    fd, path = tempfile.mkstemp(prefix='omp-res-', dir=_outdir())
    os.close(fd)
    try:
        r = subprocess.run([sys.executable, os.path.join(os.path.dirname(os.path.abspath(__file__)), 'omp_child.py'), path],
                           input=json.dumps(cfg), text=True, env=env, stdout=subprocess.DEVNULL, stderr=subprocess.PIPE,
                           timeout=timeout)
        if os.path.getsize(path) > 0:
            with open(path, 'rb') as f:
                return pickle.load(f)
        return ('crash', 'fresh interpreter exited with %d: %s' % (r.returncode, r.stderr[-500:]))
    except subprocess.TimeoutExpired:
        return ('hang', 'no result within %d s' % timeout)
    finally:
        try:
            os.unlink(path)
        except OSError:
            pass


def _clean_outdirs():
    """remove the scratch output directories of processes that are gone"""
    import shutil
    base = os.path.join(os.environ.get('VERIF_CACHE', '/root/.cache/pysph_verif'), 'omp_out')
    try:
        for n in os.listdir(base):
            if n.isdigit() and not os.path.exists('/proc/%s' % n):
                shutil.rmtree(os.path.join(base, n), ignore_errors=True)
    except OSError:
        pass


def prepare(prop, tier):
    from vsim import build
    build.activate()
    _clean_outdirs()
    import pysph.solver.application  # noqa
    import pysph.base.nnps  # noqa
    # compile the generated programs (problem x build kind) once, in parallel children
    pids = []
    for problem in PROBLEMS:
        for kind in ('serial', 'omp', 'sim'):
            pid = os.fork()
            if pid == 0:
                try:
                    k, v = run_app(dict(problem=problem, nx=PROBLEMS[problem][0], steps=1, kind=kind, threads=2, nnps='ll',
                                        valid_gids=1), timeout=900)
                    os._exit(0 if k == 'ok' else 1)
                finally:
                    os._exit(1)
            pids.append((pid, problem, kind))
    bad = []
    for pid, problem, kind in pids:
        _, st = os.waitpid(pid, 0)
        if st != 0:
            bad.append((problem, kind))
    if bad:
        raise RuntimeError('warm-up of generated programs failed for %r' % bad)


def gen(t, prop, tier):
    problem = t.wchoice([('drop', 3), ('cavity', 4), ('tg', 4), ('sod', 3), ('adapth', 3), ('impact', 3), ('tg_gtvf', 2)])
    nx = t.choice(PROBLEMS[problem])
    steps = t.choice([2, 3, 5, 8]) if problem != 'impact' else t.choice([3, 6, 8, 10])
    nnps = t.choice(NNPS)
    knobs = {}
    if nnps == 'esh':
        knobs['H'] = t.choice([1, 2, 3])
    if nnps in ('sh', 'esh', 'strat_hash'):
        knobs['table_size'] = t.choice([131072, 1000, 257])
    if nnps in ('strat_hash', 'strat_sfc'):
        knobs['num_levels'] = t.choice([1, 2])
    if nnps in ('tree', 'comp_tree'):
        knobs['leaf'] = t.choice([10, 5, 32])
    kind = t.wchoice([('serial', 2), ('omp', 3), ('sim', 6)])
    can_reorder = nnps in REORDER
    return dict(problem=problem, nx=nx, steps=steps, nnps=nnps, knobs=knobs, cache=int(t.bool(0.6)), sort_gids=int(t.bool(0.6)),
                reorder=(t.wchoice([(0, 5), (1, 2), (2, 2), (5, 1)]) if can_reorder else 0), valid_gids=t.wchoice([(0, 3), (1, 5), (2, 2)]), kind=kind,
                threads=t.choice([1, 2, 3, 4, 7, 16]), sched_seed=t.int(0, 1 << 30),
                policy=t.wchoice([('mixed', 5), ('static', 1), ('dynamic', 2), ('guided', 1), ('reverse', 1)]),
                check_prob=t.choice([0.0, 0.0, 0.05]), repeat=int(t.bool(0.15)), hashseed=t.int(1, 100000), hashseed2=t.int(1, 100000))


def _sched_faults(sc):
    """the schedule perturbations of this run, reported as the injected 'fault' kinds"""
    k = sc.get('kind')
    if k == 'sim':
        return {'simulated_schedule_' + str(sc.get('policy', 'mixed')): 1}
    if k == 'omp' and int(sc.get('threads', 1)) > 1:
        return {'real_openmp_threads': 1}
    return {}


def sig_of(sc):
    return dict(problem=sc.get('problem'), nnps=sc.get('nnps'), kind=sc.get('kind'), cache=bool(sc.get('cache')),
                sort_gids=bool(sc.get('sort_gids')), reorder=bool(sc.get('reorder')), valid_gids=bool(sc.get('valid_gids')))


def _compare(a, b, exact):
    """returns None or a description of the first difference"""
    if sorted(a) != sorted(b):
        return 'array names %r vs %r' % (sorted(a), sorted(b))
    for name in sorted(a):
        da, db = a[name], b[name]
        if len(da['ident']) != len(db['ident']) or (da['ident'] != db['ident']).any():
            return 'array %s: set of real particles differs (%d vs %d)' % (name, len(da['ident']), len(db['ident']))
        for p in STATE_PROPS:
            if p not in da:
                continue
            x, y = da[p], db[p]
            same = (x == y) | ((x != x) & (y != y))
            if exact:
                if not same.all():
                    i = int(np.nonzero(~same)[0][0])
                    return 'array %s property %s differs for particle %d: %r vs %r (%d of %d values differ; not bit-identical)' % (
                        name, p, int(da['ident'][i]), float(x[i]), float(y[i]), int((~same).sum()), len(x))
            else:
                scale = max(float(np.nanmax(np.abs(y))) if len(y) else 0.0, 1e-300)
                bad = ~same & ~(np.abs(x - y) <= 1e-7 * scale)
                if bad.any():
                    i = int(np.nonzero(bad)[0][0])
                    return 'array %s property %s differs for particle %d: %r vs %r (scale %r, %d of %d beyond 1e-7)' % (
                        name, p, int(da['ident'][i]), float(x[i]), float(y[i]), scale, int(bad.sum()), len(x))
    return None


def execute(sc, prop):
    try:
        problem = sc['problem']
        nx = int(sc['nx'])
        steps = int(sc['steps'])
        assert problem in PROBLEMS and nx in PROBLEMS[problem] and 1 <= steps <= 12
        assert sc.get('nnps', 'll') in NNPS and sc.get('kind', 'serial') in ('serial', 'omp', 'sim')
        kn = sc.get('knobs') or {}
        assert all(int(v) >= 1 for v in kn.values())
        if sc.get('reorder') and sc.get('nnps', 'll') not in REORDER:
            raise InvalidScenario('this neighbour algorithm refuses re-ordering')
    except Exception as e:
        raise InvalidScenario(repr(e))
    viol = []
    probes = {}

    def probe(n, k=1):
        probes[n] = probes.get(n, 0) + k

    def violate(inv, detail, **sig):
        if len(viol) < 3:
            s = sig_of(sc)
            s.update(sig)
            viol.append(dict(invariant=inv, detail=detail, sig=s))
    nruns = 0
    bkey = (problem, nx, steps, bool(sc.get('sort_gids')), int(sc.get('valid_gids') or 0))
    if bkey not in _BASE:
        if len(_BASE) > 40:
            _BASE.clear()
        k, v = run_app(dict(problem=problem, nx=nx, steps=steps, nnps='ll', kind='serial', sort_gids=sc.get('sort_gids'),
                            valid_gids=sc.get('valid_gids')))
        nruns += 1
        if k != 'ok':
            raise RuntimeError('baseline run failed: %s %s' % (k, str(v)[-1500:]))
        _BASE[bkey] = v[0]
    base = _BASE[bkey]
    cfg = dict(sc)
    k, v = run_app(cfg)
    nruns += 1
    if k != 'ok':
        violate('run-failed', 'Application run with %r ended with %s: %s' % (sig_of(sc), k, str(v)[-700:]), outcome=k)
        return dict(violations=viol, digest=digest(repr(sorted(sig_of(sc).items()))), nontrivial=True, faults={}, probes=probes,
                    sim=float(nruns), inconclusive=False)
    res, info = v
    kind = sc.get('kind')
    if kind == 'sim':
        probe('sim_schedule_runs')
        if info['tids'] > 1 and sc.get('cache'):
            probe('cross_thread_cache_use')
        if info['checked']:
            probe('write_set_chunks_checked', info['checked'])
        for wv in info['write_set']:
            violate('write-outside-own-row', wv)
    elif kind == 'omp':
        probe('real_openmp_runs')
    if sc.get('cache'):
        probe('cache_on')
    if sc.get('sort_gids'):
        probe('sorted_runs')
        if int(sc.get('valid_gids') or 0) == 2:
            probe('sorted_with_partly_valid_gids')
    if sc.get('reorder'):
        probe('reorder_runs')
        if problem in ('tg', 'tg_gtvf'):
            probe('reorder_on_periodic')
        if problem == 'tg_gtvf':
            probe('reorder_with_an_integrator_that_starts_without_refresh')
        if problem == 'sod':
            probe('reorder_on_mirror')
    if problem in ('cavity', 'impact'):
        probe('multi_array_problem')
    if problem == 'impact' and steps >= 5:
        probe('arrays_start_to_interact_late')
    for name, d in res.items():
        if not d.get('trip_ok', True):
            violate('strided-property-detached', 'array %s: the stride-3 property stamped on every particle no longer matches the particle '
                    'identities at the end of the run' % name)
        if not d['nreal_first']:
            violate('real-particles-not-first', 'array %s: real particles are not the first num_real_particles at the end of the run' % name)
    # bit-identity is stated for neighbour algorithm, cache and thread settings with sorted neighbours; with re-ordering the
    # statement only promises equality up to summation order
    exact = bool(sc.get('sort_gids')) and not sc.get('reorder')
    diff = _compare(res, base, exact)
    if exact:
        probe('bit_identical_checked')
    if diff:
        violate('differs-from-baseline' + ('-bitwise' if exact else ''), '%s; configuration %r' % (diff, sig_of(sc)))
    if sc.get('repeat') and not viol:
        # the same options again in a fresh interpreter with another string-hash seed
        # (both runs pin their PYTHONHASHSEED so that the outcome does not depend on the checking process)
        k1, v1 = run_app_fresh(cfg, int(sc.get('hashseed', 1)))
        k2, v2 = run_app_fresh(cfg, int(sc.get('hashseed2', 2)))
        nruns += 2
        if k1 != 'ok' or k2 != 'ok':
            violate('run-failed', 'repeat of the same configuration in a fresh interpreter ended with %s / %s: %s' % (
                k1, k2, str(v1 if k1 != 'ok' else v2)[-400:]), outcome=k2)
        else:
            probe('repeat_checked')
            d2 = _compare(v2[0], v1[0], True)
            if d2:
                violate('not-reproducible', 'the same options twice: %s' % d2)
    nontrivial = not (sc.get('nnps') == 'll' and kind == 'serial' and not sc.get('cache') and not sc.get('reorder'))
    return dict(violations=viol, digest=digest(repr(sorted((k, str(v)) for k, v in sc.items() if k != 'repeat'))),
                nontrivial=nontrivial, faults=_sched_faults(sc), probes=probes, sim=float(nruns), inconclusive=False,
                stratum='%s/%s/%s' % (problem, sc.get('nnps'), kind))
