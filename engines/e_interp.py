"""E-INTERP: the interpolator under re-binding / update histories (C14).

Real: pysph.tools.interpolator.Interpolator (all five methods), its generated
evaluator, NNPS with cache, optional periodic DomainManager.
Oracle: NumPy/Python brute force with the Python kernel classes over all source
particles as the arrays hold them now (ghosts included), reading the target h
the interpolator actually holds.
"""
import math

import numpy as np

from vsim.choices import digest
from vsim.runner import InvalidScenario

NAME = 'E-INTERP'
CRASHY = False
RUN_TIMEOUT = 300
NO_SHRINK = {'dim', 'method', 'kernel', 'narr', 'periodic', 'via'}
METHODS = ['shepard', 'sph', 'splash', 'splash_norm', 'order1']
KERNELS_Q = ['CubicSpline']
KERNELS_T = ['CubicSpline', 'Gaussian', 'QuinticSpline', 'WendlandQuintic', 'WendlandQuinticC2_1D']

PROPS = {
    'C14': dict(
        rule=('one run = 1-3 source arrays (dim 1-3, variable h, masses, densities, a property present in all arrays and one present in '
              'only some), one method and kernel, explicit target points or the automatic grid, optionally a periodic domain, and a history '
              'of interpolate / move+update / h change+update / value change / update_particle_arrays / set_interpolation_points calls; '
              'every interpolate is compared with the defining sums; non-trivial = some target had a source in range; distinct = digest of '
              '(method, kernel, dim, sizes, op kinds)'),
        sim_unit='interpolate calls',
        components=dict(real=['pysph/tools/interpolator.py Interpolator + equations', 'pysph/tools/sph_evaluator.py SPHEvaluator (30% of the runs)', 'generated evaluator (acceleration_eval)',
                              'LinkedListNNPS with cache, DomainManager (periodic)'], fake=[],
                        model=['brute-force sums with the Python kernel classes']),
        assumptions=['tolerance 1e-9 relative to the sum of absolute terms',
                     'order1 is checked through linear-field reproduction (value and gradient) where the moment matrix has condition '
                     'number < 1e8, and against the brute-force solve otherwise skipped',
                     'ghost creation itself is C07\'s subject: the oracle reads the source arrays as they are (ghosts included)'],
        quick=dict(runs=5000, budget_s=80),
        thorough=dict(runs=300000, budget_s=1800),
    ),
}
PROBES = {'C14': ['target_without_source_in_range', 'rebind_other_size', 'set_points_after_rebind', 'ill_conditioned_skipped',
                  'property_missing_in_some_array', 'interpolate_after_other_property', 'h_increased_then_update', 'periodic_domain',
                  'order1_repeated', 'order1_3d', 'auto_grid', 'gradient_component', 'integer_typed_targets', 'via_sph_evaluator',
                  'evaluator_sources_replaced', 'evaluator_target_replaced', 'targets_2d_C', 'targets_2d_F', 'zero_coordinates_left_out',
                  'only_z_given', 'flat_array_listed_last', 'second_interpolator_alive', 'rebound_to_the_original_array_objects',
                  'update_without_domain_update']}


def prepare(prop, tier):
    from vsim import build
    build.activate()
    import pysph.tools.interpolator  # noqa
    from vsim import runner
    import sys
    me = sys.modules[__name__]
    # compile the evaluators of the quick tier once (children in parallel)
    import os
    pids = []
    kernels = KERNELS_Q if tier == 'quick' else KERNELS_T
    for m in METHODS:
        for narr in (1, 2, 3):
            for kn in kernels:
                pid = os.fork()
                if pid == 0:
                    try:
                        sc = _tiny(m, narr, kn)
                        k, v = runner.run_isolated(me, sc, prop, timeout=900)
                        os._exit(0 if k == 'ok' else 1)
                    finally:
                        os._exit(1)
                pids.append(pid)
                if len(pids) >= 16:
                    os.waitpid(pids.pop(0), 0)
    for p in pids:
        os.waitpid(p, 0)


def _tiny(method, narr, kernel):
    arrays = []
    for a in range(narr):
        arrays.append(dict(has_g=1, pts=[[0.1 * i + 0.03 * a, 0.0, 0.0, 0.15, 0.1, 1.0, 1.0 + i, 2.0] for i in range(6)]))
    return dict(dim=1, method=method, kernel=kernel, narr=narr, arrays=arrays, targets=[[0.25, 0, 0], [0.4, 0, 0]], periodic=None,
                ops=[['interp', 'f', 0]], linear=[1.0, 2.0, 0.0, 0.0])


def gen(t, prop, tier):
    dim = t.wchoice([(1, 3), (2, 5), (3, 2)])
    method = t.choice(METHODS)
    kernel = t.choice(KERNELS_Q if tier == 'quick' else KERNELS_T)
    if kernel == 'WendlandQuintic' and dim == 1:
        kernel = 'WendlandQuinticC2_1D'     # the 2-D/3-D class refuses dim 1
    narr = t.wchoice([(1, 3), (2, 4), (3, 2)])
    L = t.choice([1.0, 1.0, 2.0, 2.0, 0.5, 0.5, 1e4])       # (1e4: data in a small length unit, tiny kernel weights)
    nper = {1: t.choice([6, 10, 20]), 2: t.choice([4, 5, 7]), 3: t.choice([3, 4])}[dim]
    dx = L / nper
    hfac = t.choice([1.0, 1.2, 1.5])
    lin = [t.int(-3, 3) * 0.5, t.int(-3, 3) * 0.5, (t.int(-3, 3) * 0.5 if dim > 1 else 0.0), (t.int(-3, 3) * 0.5 if dim > 2 else 0.0)]
    periodic = None
    if t.bool(0.25):
        periodic = dict(axes=[int(a < dim and t.bool(0.7)) for a in range(3)])
        if not any(periodic['axes']):
            periodic['axes'][0] = 1
    rho_zero = int(method == 'order1' and t.bool(0.3))

    flat_last = int(narr > 1 and dim > 1 and not periodic and t.bool(0.15))

    def make_arrays(salt):
        arrays = []
        for a in range(narr):
            pts = []
            rng = list(range(nper))
            import itertools
            if flat_last and a == narr - 1:
                # the array listed last is a single row along x at the lowest y (and z) of everything, like a wall
                for i in rng:
                    x = [(i + 0.5) * dx, 0.0, 0.0]
                    f = lin[0] + lin[1] * x[0] if method == 'order1' else t.int(-4, 6) * 0.5 + salt
                    pts.append([x[0], x[1], x[2], hfac * dx, dx ** dim, 0.0 if rho_zero else 1.0, f, t.int(1, 5) * 1.0])
                arrays.append(dict(has_g=int(t.bool(0.5)), pts=pts))
                continue
            for idx in itertools.product(*[rng if k < dim else [0] for k in range(3)]):
                if t.bool(0.15) and not periodic:
                    continue
                x = [(idx[k] + 0.5 + (0.3 * (t.unit() - 0.5) if not periodic else 0.0) + 0.11 * a) * dx if k < dim else 0.0 for k in range(3)]
                if periodic:
                    x = [min(max(v, 1e-9), L - 1e-9) if k < dim else 0.0 for k, v in enumerate(x)]
                h = hfac * dx * t.choice([1.0, 1.0, 0.9, 1.1])
                m = dx ** dim * t.choice([1.0, 1.0, 0.8])
                rho = 0.0 if rho_zero else t.choice([1.0, 1.0, 1.2, 0.9])
                f = lin[0] + lin[1] * x[0] + lin[2] * x[1] + lin[3] * x[2] if method == 'order1' else t.int(-4, 6) * 0.5 + salt
                pts.append([x[0], x[1], x[2], h, m, rho, f, t.int(1, 5) * 1.0])
            if not pts:
                pts.append([0.5 * dx, 0.5 * dx if dim > 1 else 0.0, 0.5 * dx if dim > 2 else 0.0, hfac * dx, dx ** dim, 1.0, lin[0], 1.0])
            arrays.append(dict(has_g=int(a == 0 or t.bool(0.5)), pts=pts))
        return arrays
    arrays = make_arrays(0)

    def make_targets():
        if t.bool(0.2):
            return None
        if t.bool(0.15):
            # integer-typed coordinates (e.g. from np.arange), marked by a leading 'int'
            return ['int'] + [[float(t.int(0, int(max(1, L)))) if k < dim else 0.0 for k in range(3)] for _ in range(t.int(1, 6))]
        tg = []
        if dim > 1 and t.bool(0.15):
            # points on one coordinate axis (the other coordinates are zero and may be left out when they are handed over)
            k0 = t.int(0, dim - 1)
            return [[(t.unit() * L if k == k0 else 0.0) for k in range(3)] for _ in range(t.int(1, 8))]
        for _ in range(t.int(1, 14)):
            far = t.bool(0.1)
            tg.append([(t.unit() * L if not far else L * 3 + 10.0) if k < dim else 0.0 for k in range(3)])
        return tg
    targets = make_targets()
    ops = []
    for _ in range(t.choice([1, 2, 4, 7])):
        k = t.wchoice([('interp', 6), ('move', 3), ('scale_h', 2), ('set_values', 2), ('rebind', 2), ('set_points', 2)])
        if k == 'interp':
            ops.append(['interp', t.wchoice([('f', 4), ('g', 2)]), t.choice([0, 0, 1, 2, 3]) if method == 'order1' else 0])
        elif k == 'move':
            ops.append(['move', t.int(0, narr - 1), [[t.int(0, 200), (t.unit() - 0.5) * dx, (t.unit() - 0.5) * dx, (t.unit() - 0.5) * dx]
                                                     for _ in range(t.int(1, 8))], int(t.bool(0.85))])
        elif k == 'scale_h':
            ops.append(['scale_h', t.int(0, narr - 1), t.choice([1.5, 2.0, 0.7, 3.0]), int(t.bool(0.85))])
        elif k == 'set_values':
            ops.append(['set_values', t.int(0, narr - 1), t.int(1, 9)])
        elif k == 'rebind':
            ops.append(['rebind', make_arrays(t.int(1, 5))])
            if t.bool(0.4):
                ops.append(['interp', 'f', 0])
                ops.append(['rebind_back'])     # back to the array objects the interpolator was built with
        else:
            tg = make_targets()
            if tg is not None:
                # optional third element: the target arrays are handed over as 2-D arrays of [rows, memory order]
                ops.append(['set_points', tg, [t.choice([1, 2, 3, 4]), t.choice(['C', 'F'])]] if t.bool(0.5) else ['set_points', tg])
    ops.append(['interp', 'f', 0])
    sc = dict(dim=dim, method=method, kernel=kernel, narr=narr, arrays=arrays, targets=targets, periodic=periodic, ops=ops,
              linear=lin, L=L, num_points=t.choice([8, 27, 50]))
    # the same equations through the SPHEvaluator front end (evaluate / update / update_particle_arrays)
    sc['via'] = 'evaluator' if (method != 'order1' and t.bool(0.3)) else 'interp'
    if t.bool(0.4):
        sc['tlayout'] = [t.choice([1, 2, 3, 4]), t.choice(['C', 'F'])]
    sc['omit_zero'] = int(t.bool(0.5))
    # a second Interpolator of the same kind on other data is alive in the process while the first one is used
    sc['second_instance'] = int(t.bool(0.2))
    return sc


def sig_of(sc):
    return dict(method=sc.get('method'), dim=sc.get('dim'), kernel=sc.get('kernel'), narr=sc.get('narr'), periodic=bool(sc.get('periodic')),
                via=sc.get('via', 'interp'))


def _mk_arrays(specs, dim):
    from pysph.base.utils import get_particle_array
    out = []
    for a, spec in enumerate(specs):
        rows = []
        for r in spec.get('pts', []):
            try:
                row = [float(v) for v in r[:8]]
            except Exception:
                raise InvalidScenario('row')
            if len(row) != 8 or not row[3] > 0 or not row[4] > 0 or row[5] < 0 or not all(math.isfinite(v) for v in row):
                raise InvalidScenario('row values')
            for k in range(dim, 3):
                row[k] = 0.0
            rows.append(row)
        if not rows:
            raise InvalidScenario('empty source array')
        arr = np.array(rows)
        kw = dict(name='a%d' % a, x=arr[:, 0].copy(), y=arr[:, 1].copy(), z=arr[:, 2].copy(), h=arr[:, 3].copy(), m=arr[:, 4].copy(),
                  rho=arr[:, 5].copy(), f=arr[:, 6].copy())
        if spec.get('has_g'):
            kw['g'] = arr[:, 7].copy()
        out.append(get_particle_array(**kw))
    return out


class EvalAdapter(object):
    """the interpolation equations driven through pysph.tools.sph_evaluator.SPHEvaluator (the post-processing front end named in
    the property's anchors) behind the interface execute() uses for the Interpolator: evaluate / update / update_particle_arrays
    with replaced source arrays or a replaced target array"""
    def __init__(self, arrays, kern, targets, dm, method, dim):
        from pysph.tools import interpolator as IM
        from pysph.tools.sph_evaluator import SPHEvaluator
        self.method = method
        self.dim = dim
        self.kernel = kern
        self._set(arrays)
        self.pa = self._target(targets)
        cls = dict(shepard=IM.InterpolateFunction, sph=IM.InterpolateSPH, splash=IM.SPLASHInterpolateProperty,
                   splash_norm=IM.SPLASHInterpolatePropertyNormalized)[method]
        eqs = [cls(dest='interpolate', sources=[pa.name for pa in arrays])]
        self.ev = SPHEvaluator(self.particle_arrays + [self.pa], eqs, dim=dim, kernel=kern, domain_manager=dm)

    def _set(self, arrays):
        self.particle_arrays = arrays
        for pa in arrays:
            if 'temp_prop' not in pa.properties:
                pa.add_property('temp_prop')

    def _target(self, targets):
        from pysph.base.utils import get_particle_array
        t = np.asarray(targets, dtype=float)
        hmax = max(float(pa.get('h', only_real_particles=False).max()) for pa in self.particle_arrays)
        pa = get_particle_array(name='interpolate', x=t[:, 0].copy(), y=t[:, 1].copy(), z=t[:, 2].copy(), h=hmax * np.ones(len(t)),
                                number_density=np.zeros(len(t)))
        pa.add_property('prop')
        if self.method == 'splash_norm':
            pa.add_property('unity')
        return pa

    def interpolate(self, prop, comp=0):
        for pa in self.particle_arrays:
            data = pa.get(prop, only_real_particles=False) if prop in pa.properties else 0.0
            pa.get('temp_prop', only_real_particles=False)[:] = data
        self.ev.evaluate()
        return self.pa.prop.copy()

    def update(self):
        self.ev.update()

    def update_particle_arrays(self, new):
        self._set(new)
        self.ev.update_particle_arrays(self.particle_arrays + [self.pa])

    def set_interpolation_points(self, x, y, z):
        self.pa = self._target(np.array([x, y, z], dtype=float).T)
        self.ev.update_particle_arrays(self.particle_arrays + [self.pa])


def execute(sc, prop):
    from pysph.tools.interpolator import Interpolator
    from pysph.base import kernels as K
    from pysph.base.nnps import DomainManager
    import pysph.sph.equation as _EQ
    _EQ.group_counter = _EQ._counter()
    try:
        dim = int(sc['dim'])
        method = sc['method']
        kname = sc['kernel']
        narr = int(sc['narr'])
        specs = sc['arrays']
        ops = sc.get('ops', [])
        assert dim in (1, 2, 3) and method in METHODS and kname in KERNELS_T and 1 <= narr <= 3 and len(specs) == narr
    except Exception as e:
        raise InvalidScenario(repr(e))
    viol = []
    probes = {}

    def probe(n, k=1):
        probes[n] = probes.get(n, 0) + k

    def violate(inv, detail, **sig):
        if len(viol) < 3:
            s = sig_of(sc)
            s.update(sig)
            viol.append(dict(invariant=inv, detail=detail, sig=s))
    arrays = _mk_arrays(specs, dim)
    orig_arrays = arrays
    # the interpolator derives its dimension from the extent of the sources
    ext = [max(float(pa.x.max()) for pa in arrays) - min(float(pa.x.min()) for pa in arrays),
           max(float(pa.y.max()) for pa in arrays) - min(float(pa.y.min()) for pa in arrays),
           max(float(pa.z.max()) for pa in arrays) - min(float(pa.z.min()) for pa in arrays)]
    tot = sum(ext)
    if tot <= 0 or sum(1 for e in ext if e / tot > 1e-3) != dim:
        raise InvalidScenario('source extent does not span the dimension')
    if (kname == 'WendlandQuintic') == (dim == 1) and kname.startswith('Wendland'):
        raise InvalidScenario('kernel class does not support this dimension')
    kern = getattr(K, kname)(dim=dim)
    per = sc.get('periodic')
    dm = None
    L = float(sc.get('L', 1.0))
    if per:
        ax = [bool(v) for v in per.get('axes', [0, 0, 0])]
        if not any(ax) or any(ax[k] for k in range(dim, 3)):
            raise InvalidScenario('periodic axes')
        for pa in arrays:
            for k, c in enumerate('xyz'[:dim]):
                v = pa.get(c)
                if v.min() < 0 or v.max() > L:
                    raise InvalidScenario('source outside the periodic box')
        dm = DomainManager(xmin=0.0, xmax=L, ymin=0.0, ymax=L if dim > 1 else 0.0, zmin=0.0, zmax=L if dim > 2 else 0.0,
                           periodic_in_x=ax[0], periodic_in_y=ax[1], periodic_in_z=ax[2])
        probe('periodic_domain')

    def tgt(tl):
        if tl is None:
            return None
        if tl and tl[0] == 'int':
            try:
                a = np.array([[int(v) for v in r[:3]] for r in tl[1:]], dtype=np.int64).reshape(len(tl) - 1, 3)
            except Exception:
                raise InvalidScenario('targets')
            if len(a) == 0:
                raise InvalidScenario('targets')
            a[:, dim:] = 0
            probe('integer_typed_targets')
            return a
        try:
            a = np.array([[float(v) for v in r[:3]] for r in tl], dtype=float).reshape(len(tl), 3)
        except Exception:
            raise InvalidScenario('targets')
        if len(a) == 0 or not np.isfinite(a).all():
            raise InvalidScenario('targets')
        a[:, dim:] = 0.0
        return a
    targets = tgt(sc.get('targets'))
    user = dict(pts=None, shape=None)      # the target points as the user handed them over (C-order) and the shape of the arrays

    def shaped(a, layout):
        """x, y, z arrays for the (n, 3) points `a`: flat, or 2-D with `rows` rows in C or Fortran memory order"""
        n = len(a)
        rows, order = 1, 'C'
        if isinstance(layout, list) and len(layout) == 2:
            try:
                rows, order = int(layout[0]), str(layout[1])
            except Exception:
                raise InvalidScenario('layout')
        if rows > 1 and n % rows == 0 and order in ('C', 'F'):
            shp = (rows, n // rows)
            cols = [np.asarray(a[:, k].reshape(shp), order=order).copy(order=order) for k in range(3)]
            probe('targets_2d_' + order)
        else:
            shp = (n,)
            cols = [a[:, k].copy() for k in range(3)]
        user['pts'] = np.asarray(a, dtype=float).copy()
        user['shape'] = shp
        if sc.get('omit_zero'):
            # coordinates that are not passed are taken as zero: leave out the all-zero ones (but one array must be given)
            nz = [k for k in range(3) if np.any(np.asarray(a[:, k]) != 0)] or [0]
            if len(nz) < 3:
                probe('zero_coordinates_left_out')
                if nz == [2]:
                    probe('only_z_given')
            cols = [cols[k] if k in nz else None for k in range(3)]
        return cols
    via = sc.get('via', 'interp')
    if via not in ('interp', 'evaluator') or (via == 'evaluator' and method == 'order1'):
        raise InvalidScenario('via')
    try:
        if via == 'evaluator':
            probe('via_sph_evaluator')
            if targets is None:
                p0 = arrays[0]
                targets = np.array([[float(p0.x[i]), float(p0.y[i]), float(p0.z[i])] for i in range(min(3, len(p0.x)))])
            interp = EvalAdapter(arrays, kern, targets, dm, method, dim)
        elif targets is None:
            probe('auto_grid')
            interp = Interpolator(arrays, num_points=int(sc.get('num_points', 27)), kernel=kern, domain_manager=dm, method=method)
        else:
            tx0, ty0, tz0 = shaped(targets, sc.get('tlayout'))
            interp = Interpolator(arrays, kernel=kern, x=tx0, y=ty0, z=tz0, domain_manager=dm, method=method)
    except Exception as e:
        import traceback
        violate('interpolator-raised', 'constructing the interpolator raised %r\n%s' % (e, traceback.format_exc()[-500:]))
        return dict(violations=viol, digest=0, nontrivial=False, faults={}, probes=probes, sim=0.0, inconclusive=False)
    if interp.dim != dim:
        # (the extents of the sources were checked above with the interpolator's own rule: more than 1e-3 of the total length)
        violate('dimension-misdetected', 'the sources span %d dimensions (extents %r) but the interpolator works in %d' % (dim, ext, interp.dim))
        return dict(violations=viol, digest=0, nontrivial=True, faults={}, probes=probes, sim=0.0, inconclusive=False)
    if targets is None and via == 'interp':
        tight = []
        for c in 'xyz':
            tight += [min(float(pa.get(c).min()) for pa in arrays), max(float(pa.get(c).max()) for pa in arrays)]
        want_b = [tight[2 * k + j] + (-1.0 if j == 0 else 1.0) * 0.05 * (tight[2 * k + 1] - tight[2 * k]) for k in range(3) for j in range(2)]
        got_b = [float(v) for v in np.asarray(interp.bounds).ravel()]
        if len(got_b) != 6 or any(abs(g - w_) > 1e-12 * max(1.0, abs(w_)) for g, w_ in zip(got_b, want_b)):
            violate('auto-grid-bounds', 'the automatic grid covers %r, the bounding box of all source arrays stretched by 5 %% is %r' % (got_b, want_b))
            return dict(violations=viol, digest=0, nontrivial=True, faults={}, probes=probes, sim=0.0, inconclusive=False)
    if any(len(s_.get('pts', [])) and all(r[1] == 0.0 for r in s_['pts']) for s_ in specs[1:]) and dim > 1:
        probe('flat_array_listed_last')
    other = None
    if sc.get('second_instance') and via == 'interp':
        shifted = [dict(has_g=s_.get('has_g'), pts=[[r[0] + 0.013, r[1], r[2], r[3], r[4], r[5], r[6] + 5.0, r[7]] for r in s_.get('pts', [])])
                   for s_ in specs]
        try:
            other = Interpolator(_mk_arrays(shifted, dim), kernel=getattr(K, kname)(dim=dim), x=np.array([0.3, 0.6]) * L,
                                 y=(np.array([0.3, 0.6]) * L if dim > 1 else None), z=(np.array([0.3, 0.6]) * L if dim > 2 else None),
                                 method=method)
            other.interpolate('f')
            probe('second_interpolator_alive')
        except Exception as e:
            if not per:
                violate('interpolator-raised', 'constructing a second interpolator raised %r' % (e,))
    lin = [float(v) for v in (sc.get('linear') or [0, 0, 0, 0])]
    linear_ok = [True]      # the sources still carry the exact linear field (order1 reproduction check)
    last_prop = [None]
    ninterp = 0
    any_in_range = [False]
    kinds = []
    n_order1 = [0]

    def brute(propname, comp):
        tp = interp.pa
        tx, ty, tz, th = tpos()
        nt = tp.num_real_particles
        exp = np.zeros(nt)
        tolr = np.zeros(nt)
        skip = np.zeros(nt, dtype=bool)
        srcs = []
        for pa in interp.particle_arrays:
            n = pa.get_number_of_particles()
            vals = pa.get(propname, only_real_particles=False) if propname in pa.properties else np.zeros(n)
            srcs.append(tuple(pa.get(c, only_real_particles=False) for c in ('x', 'y', 'z', 'h', 'm', 'rho')) + (vals,))
        for i in range(nt):
            num = den = 0.0
            absum = 0.0
            M = np.zeros((4, 4))
            b = np.zeros(4)
            grad = [0.0, 0.0, 0.0]
            for (sx, sy, sz, sh, sm, srho, sv) in srcs:
                for j in range(len(sx)):
                    xij = [tx[i] - sx[j], ty[i] - sy[j], tz[i] - sz[j]]
                    r = math.sqrt(xij[0] ** 2 + xij[1] ** 2 + xij[2] ** 2)
                    hij = 0.5 * (th[i] + sh[j])
                    if method in ('shepard', 'sph', 'order1'):
                        w = kern.kernel(xij, r, hij)
                    elif method == 'splash':
                        w = kern.kernel(xij, r, th[i])
                    else:
                        w = kern.kernel(xij, r, sh[j])
                    if w == 0.0 and method != 'order1':
                        continue
                    if method == 'shepard':
                        num += w * sv[j]
                        den += w
                        absum += abs(w * sv[j])
                    elif method in ('sph', 'splash'):
                        tterm = sm[j] / srho[j] * w * sv[j] if srho[j] != 0 else float('nan')
                        num += tterm
                        absum += abs(tterm)
                        den += w
                    elif method == 'splash_norm':
                        c = sm[j] / srho[j] * w if srho[j] != 0 else float('nan')
                        num += c * sv[j]
                        den += c
                        absum += abs(c * sv[j])
                    else:
                        kern.gradient(xij, r, hij, grad)
                        if w == 0.0 and grad == [0.0, 0.0, 0.0]:
                            continue
                        den += w
            if den != 0:
                any_in_range[0] = True
            else:
                probe('target_without_source_in_range')
            if method == 'shepard':
                exp[i] = num / den if den > 1e-12 else num
                tolr[i] = 1e-9 * (absum / den if den > 1e-12 else absum) + 1e-300
            elif method in ('sph', 'splash'):
                exp[i] = num
                tolr[i] = 1e-9 * absum + 1e-300
            elif method == 'splash_norm':
                exp[i] = num / den if den > 1e-12 else num
                tolr[i] = 1e-9 * (absum / den if den > 1e-12 else absum) + 1e-300
        return exp, tolr

    earlier = []

    def tpos():
        """positions of the targets in the order of the (C-order flattened) result: the arrays the user handed over when
        explicit points were given to the Interpolator, else what the interpolator holds; h as the interpolator holds it"""
        tp = interp.pa
        th = tp.get('h', only_real_particles=False)
        if via == 'interp' and not per and user['pts'] is not None and len(user['pts']) == tp.num_real_particles:
            # (in a periodic box the domain manager wraps target points lying on or outside a face: read them back instead)
            a = user['pts']
            return a[:, 0], a[:, 1], a[:, 2], th
        return tuple(tp.get(c, only_real_particles=False) for c in ('x', 'y', 'z')) + (th,)

    def check_interp(propname, comp):
        try:
            raw = np.asarray(interp.interpolate(propname, comp=comp), dtype=float)
            got = np.atleast_1d(raw).ravel()
        except Exception as e:
            import traceback
            violate('interpolate-raised', 'interpolate(%r, comp=%d) raised %r\n%s' % (propname, comp, e, traceback.format_exc()[-400:]))
            return
        nt = interp.pa.num_real_particles
        for (old_arr, old_copy, old_what) in earlier:
            if old_arr.shape != old_copy.shape or not np.array_equal(old_arr, old_copy, equal_nan=True):
                violate('earlier-result-changed', 'the array returned by %s was modified by a later interpolate() call' % old_what)
                return
        if isinstance(raw, np.ndarray):
            earlier.append((raw, raw.copy(), 'interpolate(%r, comp=%d) #%d' % (propname, comp, ninterp)))
            del earlier[:-3]
        if via == 'interp' and user['shape'] is not None and len(got) == nt:
            want = tuple(k for k in user['shape'] if k != 1)
            if tuple(raw.shape) != want:
                violate('result-shape', 'interpolate returned an array of shape %r for target arrays of shape %r' % (tuple(raw.shape), user['shape']),
                        after=(kinds[-1] if kinds else 'start'))
                return
        if len(got) != nt:
            violate('result-shape', 'interpolate returned %d values for %d target points' % (len(got), nt))
            return
        what = 'interpolate(%r, comp=%d) #%d [%s]' % (propname, comp, ninterp, ','.join(kinds[-4:]))
        if method != 'order1':
            exp, tolr = brute(propname, comp)
            bad = ~(np.abs(got - exp) <= tolr) & ~((got != got) & (exp != exp))
            if bad.any():
                i = int(np.nonzero(bad)[0][0])
                px, py, pz, _ = tpos()
                violate('value-differs-from-definition', '%s: target %d at (%r, %r, %r) got %r, defining sum gives %r (tolerance %r); %d of %d targets differ'
                        % (what, i, float(px[i]), float(py[i]), float(pz[i]), float(got[i]), float(exp[i]), float(tolr[i]), int(bad.sum()), nt),
                        after=(kinds[-1] if kinds else 'start'))
                return
            if method == 'shepard':
                # bounds: between the min and max of the contributing values; here checked globally
                vals = np.concatenate([(pa.get(propname, only_real_particles=False) if propname in pa.properties
                                        else np.zeros(pa.get_number_of_particles())) for pa in interp.particle_arrays])
                lo, hi = float(vals.min()), float(vals.max())
                pad = 1e-9 * max(abs(lo), abs(hi), 1.0)
                if (got < min(lo, 0.0) - pad).any() or (got > max(hi, 0.0) + pad).any():
                    violate('shepard-out-of-bounds', '%s: result range [%r, %r] outside source range [%r, %r]' % (what, float(got.min()), float(got.max()), lo, hi))
        else:
            n_order1[0] += 1
            if n_order1[0] > 1:
                probe('order1_repeated')
            if dim == 3:
                probe('order1_3d')
            if comp:
                probe('gradient_component')
            if comp > dim:
                return
            # linear reproduction where the moment matrix is well conditioned
            tp = interp.pa
            tx, ty, tz, th = tpos()
            n = dim + 1
            grad = [0.0, 0.0, 0.0]
            # rho as the evaluator computes it: summation density over all sources (ghosts included)
            allsrc = []
            for pa in interp.particle_arrays:
                allsrc.append(tuple(pa.get(c, only_real_particles=False) for c in ('x', 'y', 'z', 'h', 'm')))
            for i in range(nt):
                M = np.zeros((4, 4))
                bvec = np.zeros(4)
                babs = 0.0
                cnt = 0
                for pa, (sx, sy, sz, sh, sm) in zip(interp.particle_arrays, allsrc):
                    rho = pa.get('rho', only_real_particles=False)
                    fv = pa.get(propname, only_real_particles=False) if propname in pa.properties else np.zeros(len(sx))
                    for j in range(len(sx)):
                        xij = [tx[i] - sx[j], ty[i] - sy[j], tz[i] - sz[j]]
                        r = math.sqrt(xij[0] ** 2 + xij[1] ** 2 + xij[2] ** 2)
                        hij = 0.5 * (th[i] + sh[j])
                        w = kern.kernel(xij, r, hij)
                        kern.gradient(xij, r, hij, grad)
                        if w == 0.0 and grad == [0.0, 0.0, 0.0]:
                            continue
                        cnt += 1
                        V = sm[j] / rho[j] if rho[j] != 0 else float('nan')
                        M[0, 0] += w * V
                        bvec[0] += fv[j] * w * V
                        babs += abs(fv[j] * w * V)
                        for c in range(3):
                            bvec[1 + c] += fv[j] * grad[c] * V
                            M[0, 1 + c] += -xij[c] * w * V
                            M[1 + c, 0] += grad[c] * V
                            for c2 in range(3):
                                M[1 + c, 1 + c2] += -xij[c2] * grad[c] * V
                if cnt == 0:
                    continue
                any_in_range[0] = True
                Mn = M[:n, :n]
                if not np.isfinite(Mn).all():
                    violate('order1-nonfinite', '%s: moment matrix of target %d is not finite (source rho %r)' % (
                        what, i, 'contains zeros' if any((pa.get('rho', only_real_particles=False) == 0).any() for pa in interp.particle_arrays) else 'positive'))
                    return
                try:
                    cond = np.linalg.cond(Mn)
                except Exception:
                    cond = float('inf')
                if not cond < 1e6:
                    probe('ill_conditioned_skipped')
                    continue
                try:
                    sol = np.linalg.solve(Mn, bvec[:n])
                except Exception:
                    probe('ill_conditioned_skipped')
                    continue
                tol_s = 1e-7 * cond * max(np.abs(sol).max(), 1e-300)
                if not abs(got[i] - sol[comp]) <= tol_s:
                    violate('value-differs-from-definition',
                            '%s: target %d at (%r, %r, %r): component %d is %r, solving the moment system gives %r (condition number %.3g)'
                            % (what, i, float(tx[i]), float(ty[i]), float(tz[i]), comp, float(got[i]), float(sol[comp]), cond),
                            after=(kinds[-1] if kinds else 'start'))
                    return
                if propname != 'f' or not linear_ok[0] or per:
                    continue
                exact = [lin[0] + lin[1] * tx[i] + lin[2] * ty[i] + lin[3] * tz[i], lin[1], lin[2], lin[3]][comp]
                scale = max(abs(lin[0]) + abs(lin[1]) + abs(lin[2]) + abs(lin[3]), 1.0) * max(1.0, abs(tx[i]), abs(ty[i]), abs(tz[i]))
                tol_i = 1e-6 * scale * (1.0 if not comp else 1.0 / max(th[i], 1e-12))
                if not abs(got[i] - exact) <= tol_i:
                    violate('order1-linear-not-reproduced',
                            '%s: target %d at (%r, %r, %r): component %d is %r, the linear field gives %r (moment condition number %.3g)'
                            % (what, i, float(tx[i]), float(ty[i]), float(tz[i]), comp, float(got[i]), float(exact), cond),
                            after=(kinds[-1] if kinds else 'start'))
                    return

    for op in ops[:12]:
        if viol:
            break
        if not isinstance(op, list) or not op:
            continue
        k = op[0]
        try:
            if k == 'interp':
                propname = op[1] if len(op) > 1 and op[1] in ('f', 'g') else 'f'
                comp = int(op[2]) if len(op) > 2 and method == 'order1' else 0
                if comp < 0 or comp > 3:
                    comp = 0
                if any(propname not in pa.properties for pa in interp.particle_arrays):
                    probe('property_missing_in_some_array')
                    if all(propname not in pa.properties for pa in interp.particle_arrays):
                        continue
                if last_prop[0] is not None and last_prop[0] != propname:
                    probe('interpolate_after_other_property')
                check_interp(propname, comp)
                ninterp += 1
                last_prop[0] = propname
            elif k == 'move':
                a = int(op[1]) % narr
                pa = interp.particle_arrays[a]
                nreal = pa.num_real_particles
                for mv in op[2]:
                    i = int(mv[0]) % nreal
                    for c, d in zip('xyz'[:dim], mv[1:4]):
                        arr = pa.get(c, only_real_particles=False)
                        nv = arr[i] + float(d)
                        if per:
                            nv = min(max(nv, 0.0), L)
                        arr[i] = nv
                linear_ok[0] = False
                if not per and via == 'interp' and len(op[2]) % 2 == 0:
                    # without a periodic or mirror domain the domain update is a no-op and may be left out
                    interp.update(update_domain=False) if len(op[2]) % 4 == 0 else interp.update(False)
                    probe('update_without_domain_update')
                elif len(op) < 4 or op[3]:
                    interp.update()
                else:
                    # particles moved but the user did not call update(): the next result is unspecified; re-synchronise
                    interp.update()
            elif k == 'scale_h':
                a = int(op[1]) % narr
                fct = float(op[2])
                if not 0.3 <= fct <= 4:
                    continue
                pa = interp.particle_arrays[a]
                pa.get('h', only_real_particles=False)[:] *= fct
                if fct > 1:
                    probe('h_increased_then_update')
                interp.update()
            elif k == 'set_values':
                a = int(op[1]) % narr
                pa = interp.particle_arrays[a]
                v = pa.get('f', only_real_particles=False)
                v[:] = v * 0.5 + float(int(op[2]) % 10)
                linear_ok[0] = False
                if per:
                    interp.update()     # ghosts carry copies of the values
            elif k == 'rebind':
                new = _mk_arrays(op[1], dim)
                if len(new) != narr:
                    continue
                for pa_new, pa_old in zip(new, arrays):
                    if ('g' in pa_new.properties) != ('g' in pa_old.properties):
                        if 'g' in pa_old.properties:
                            pa_new.add_property('g', data=np.ones(pa_new.get_number_of_particles()))
                        else:
                            pa_new.remove_property('g')
                if per:
                    ok = True
                    for pa in new:
                        for c in 'xyz'[:dim]:
                            v = pa.get(c)
                            if v.min() < 0 or v.max() > L:
                                ok = False
                    if not ok:
                        continue
                if any(pn.get_number_of_particles() != po.get_number_of_particles() for pn, po in zip(new, interp.particle_arrays)):
                    probe('rebind_other_size')
                interp.update_particle_arrays(new)
                if via == 'evaluator':
                    probe('evaluator_sources_replaced')
                arrays = new
                linear_ok[0] = (method == 'order1')
                rebound = True
            elif k == 'rebind_back':
                if arrays is orig_arrays:
                    continue
                interp.update_particle_arrays(orig_arrays)
                arrays = orig_arrays
                linear_ok[0] = False
                probe('rebound_to_the_original_array_objects')
            elif k == 'set_points':
                tg = tgt(op[1])
                if via == 'interp':
                    sx_, sy_, sz_ = shaped(tg, op[2] if len(op) > 2 else None)
                else:
                    sx_, sy_, sz_ = tg[:, 0].copy(), tg[:, 1].copy(), tg[:, 2].copy()
                interp.set_interpolation_points(x=sx_, y=sy_, z=sz_)
                if via == 'evaluator':
                    probe('evaluator_target_replaced')
                if 'rebind' in kinds:
                    probe('set_points_after_rebind')
            else:
                continue
        except InvalidScenario:
            raise
        except Exception as e:
            import traceback
            if traceback.extract_tb(e.__traceback__)[-1].filename.endswith('e_interp.py'):
                raise
            violate('operation-raised', '%s raised %r\n%s' % (k, e, traceback.format_exc()[-500:]), op=k)
            break
        kinds.append(k)
    shape = (method, kname, dim, [len(s.get('pts', [])) for s in specs], kinds, bool(per), sc.get('targets') is None, via)
    return dict(violations=viol, digest=digest(repr(shape)), nontrivial=any_in_range[0], faults={}, probes=probes,
                sim=float(ninterp), inconclusive=False)
