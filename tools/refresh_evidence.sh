#!/bin/sh
# runs every registered quick command in /verif against /repo and leaves the evidence files it writes
cd /verif || exit 2
rc=0
for id in $(/venv/bin/python -c "import json;print(' '.join(c['property_id'] for c in json.load(open('MANIFEST.json'))['checks']))"); do
  t0=$(date +%s)
  ./check $id --tier ${1:-quick} > /tmp/refresh_$id.out 2>&1; r=$?
  echo "$id exit=$r $(( $(date +%s) - t0 ))s  $(grep '^runs=' /tmp/refresh_$id.out | cut -c1-90)"
  [ $r -ne 0 ] && rc=1
done
exit $rc
