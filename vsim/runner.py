"""Seeded search over many simulated runs: fan-out, crash/hang attribution,
known-finding triage, shrinking, replay files and evidence.

Engine protocol (a module):
  NAME, PROPS (dict prop -> dict(rule=..., components=..., assumptions=[...],
      quick=dict(runs=, budget_s=), thorough=dict(runs=, budget_s=)))
  prepare(prop, tier)              once in the parent before workers fork
  gen(tape, prop, tier) -> scenario   (JSON-able; pure function of the tape)
  execute(scenario, prop) -> dict(violations=[dict(invariant, detail, sig)],
      digest=int, nontrivial=bool, faults={}, probes={}, sim=float,
      inconclusive=bool)
  optional: CRASHY (bool), RUN_TIMEOUT (s), describe(scenario), NO_SHRINK (set
      of dict keys never touched by the shrinker), PROBES (list of probe names
      that ought to be hit)
Exit codes: 0 held, 1 VIOLATION, 2 HARNESS-ERROR.
"""
import json
import os
import pickle
import shutil
import signal
import subprocess
import sys
import time
import traceback

from .choices import Tape, derive_seed, digest

VERIF = os.path.dirname(os.path.dirname(os.path.abspath(__file__)))
NWORKERS = int(os.environ.get('VERIF_WORKERS', '16'))


def vclass(v):
    return v.get('class') or v['invariant']


class InvalidScenario(Exception):
    """raised by engines for a (shrunk) scenario that is not executable;
    never counts as a failure."""


# ----------------------------------------------------------------------------
# accumulation
class Acc(object):
    def __init__(self):
        self.evaluations = 0
        self.nontrivial = 0
        self.inconclusive = 0
        self.digests = set()
        self.faults = {}
        self.probes = {}
        self.sim = 0.0
        self.violations = []     # (index, seed, scenario, violation)
        self.nviol = 0
        self.viol_classes = {}
        self.errors = []         # harness errors (index, text)
        self.samples = []
        self.strata = {}
        self.skipped = 0
        self.hangs = 0
        self.viol_strata = {}

    def add(self, index, seed, scenario, res, keep_sample):
        self.evaluations += 1
        if res.get('inconclusive'):
            self.inconclusive += 1
        if res.get('nontrivial', True):
            self.nontrivial += 1
            if len(self.digests) < 2000000:
                self.digests.add(res.get('digest', 0))
        for k, v in res.get('faults', {}).items():
            self.faults[k] = self.faults.get(k, 0) + v
        for k, v in res.get('probes', {}).items():
            self.probes[k] = self.probes.get(k, 0) + v
        st = res.get('stratum')
        if st is not None:
            self.strata[st] = self.strata.get(st, 0) + 1
        self.sim += res.get('sim', 0.0)
        for v in res.get('violations', []):
            self.nviol += 1
            key = vclass(v)
            self.viol_classes[key] = self.viol_classes.get(key, 0) + 1
            sg = v.get('sig') or {}
            vk = '%s|%s' % (key, '|'.join('%s=%s' % (k, sg[k]) for k in sorted(sg)
                                          if k in ('cls', 'pair', 'mode', 'problem', 'nnps', 'kind', 'reorder', 'family', 'method')))
            self.viol_strata[vk] = self.viol_strata.get(vk, 0) + 1
            if len(self.violations) < 400:
                self.violations.append((index, seed, scenario, v))
        if keep_sample and len(self.samples) < 3:
            self.samples.append(dict(index=index, seed=seed, scenario=scenario,
                                     outcome=dict(violations=len(res.get('violations', [])),
                                                  digest=res.get('digest', 0),
                                                  probes=res.get('probes', {}),
                                                  faults=res.get('faults', {}))))

    def merge(self, o):
        self.evaluations += o.evaluations
        self.nontrivial += o.nontrivial
        self.inconclusive += o.inconclusive
        self.digests |= o.digests
        for k, v in o.faults.items():
            self.faults[k] = self.faults.get(k, 0) + v
        for k, v in o.probes.items():
            self.probes[k] = self.probes.get(k, 0) + v
        for k, v in o.strata.items():
            self.strata[k] = self.strata.get(k, 0) + v
        for k, v in o.viol_classes.items():
            self.viol_classes[k] = self.viol_classes.get(k, 0) + v
        for k, v in o.viol_strata.items():
            self.viol_strata[k] = self.viol_strata.get(k, 0) + v
        self.skipped += o.skipped
        self.hangs += o.hangs
        self.sim += o.sim
        self.nviol += o.nviol
        self.violations.extend(o.violations)
        self.errors.extend(o.errors)
        self.samples.extend(o.samples)


# ----------------------------------------------------------------------------
# workers
def _write_status(fd, index):
    os.pwrite(fd, ('%d %f\n' % (index, time.time())).ljust(48).encode(), 0)


def _worker(engine, prop, tier, master, k, gen_id, start, stride, max_index,
            deadline, outdir):
    signal.signal(signal.SIGINT, signal.SIG_DFL)
    _quiet()
    acc = Acc()
    sfd = os.open(os.path.join(outdir, 'status.%d' % gen_id), os.O_CREAT | os.O_RDWR)
    respath = os.path.join(outdir, 'res.%d' % gen_id)

    def flush(done):
        t = time.time()
        with open(respath + '.tmp', 'wb') as f:
            pickle.dump((done, i, acc), f, protocol=4)
        os.rename(respath + '.tmp', respath)
        return time.time() - t

    i = start
    last = time.time()
    cost = 0.0
    nv = 0
    while i < max_index:
        now = time.time()
        if now >= deadline:
            break
        _write_status(sfd, i)
        seed = derive_seed(master, prop, i)
        scenario = None
        try:
            scenario = engine.gen(Tape(seed), prop, tier)
            iso = getattr(engine, 'needs_isolation', None)
            if iso is not None and iso(scenario):
                # configurations known to corrupt memory must not share a process with later runs
                kind, val = run_isolated(engine, scenario, prop)
                if kind == 'ok':
                    res = val
                elif kind == 'invalid':
                    raise InvalidScenario(val)
                elif kind == 'error':
                    acc.errors.append((i, val))
                    res = None
                elif kind == 'hang' and not getattr(engine, 'HANG_IS_VIOLATION', True):
                    acc.hangs += 1
                    res = dict(violations=[], digest=0, nontrivial=False, inconclusive=True)
                else:
                    sg = engine.sig_of(scenario) if hasattr(engine, 'sig_of') else {}
                    v = dict(invariant=kind, detail=val, sig=sg)
                    if sg.get('cls'):
                        v['class'] = '%s %s' % (kind, sg['cls'])
                    res = dict(violations=[v], digest=0, nontrivial=False)
            else:
                res = engine.execute(scenario, prop)
            if res is not None:
                acc.add(i, seed, scenario, res, keep_sample=(i < 3 * stride))
        except InvalidScenario as e:
            acc.skipped += 1     # the generator over-approximates; the executor refused the scenario
        except Exception:
            acc.errors.append((i, traceback.format_exc()))
            if len(acc.errors) > 20:
                break
        i += stride
        if acc.nviol != nv or now - last > max(2.0, 20 * cost):
            _write_status(sfd, -1)
            cost = flush(False)
            last = time.time()
            nv = acc.nviol
    _write_status(sfd, -1)
    flush(True)
    os._exit(0)


def _quiet():
    """library code prints warnings from compiled code; keep the check's own output readable"""
    if os.environ.get('VERIF_DEBUG'):
        return
    try:
        sys.stdout.flush()
        sys.stderr.flush()
        dn = os.open(os.devnull, os.O_WRONLY)
        os.dup2(dn, 1)
        os.dup2(dn, 2)
    except OSError:
        pass


def run_isolated(engine, scenario, prop, timeout=None):
    """execute one scenario in a forked child; returns ('ok', result) |
    ('crash', text) | ('hang', text) | ('invalid', text) | ('error', traceback)"""
    timeout = timeout or getattr(engine, 'RUN_TIMEOUT', 60)
    r, w = os.pipe()
    pid = os.fork()
    if pid == 0:
        os.close(r)
        _quiet()
        try:
            try:
                res = engine.execute(scenario, prop)
                out = ('ok', res)
            except InvalidScenario as e:
                out = ('invalid', repr(e))
            except Exception:
                out = ('error', traceback.format_exc())
            with os.fdopen(w, 'wb') as f:
                pickle.dump(out, f, protocol=4)
        finally:
            os._exit(0)
    os.close(w)
    import select
    data = b''
    t0 = time.time()
    f = os.fdopen(r, 'rb')
    hang = False
    while True:
        left = timeout - (time.time() - t0)
        if left <= 0:
            hang = True
            break
        rl, _, _ = select.select([f], [], [], min(left, 1.0))
        if rl:
            chunk = os.read(f.fileno(), 1 << 20)
            if not chunk:
                break
            data += chunk
    if hang:
        try:
            os.kill(pid, signal.SIGKILL)
        except OSError:
            pass
    _, st = os.waitpid(pid, 0)
    f.close()
    if hang:
        return ('hang', 'no result within %.0f s' % timeout)
    if data:
        try:
            return pickle.loads(data)
        except Exception:
            pass
    if os.WIFSIGNALED(st):
        return ('crash', 'killed by signal %d' % os.WTERMSIG(st))
    return ('crash', 'exit status %d without result' % st)


def _iso_violations(engine, scenario, prop):
    """violations of a scenario run in isolation; crash/hang become violations."""
    kind, val = run_isolated(engine, scenario, prop)
    if kind == 'ok':
        return val.get('violations', []), val
    if kind == 'hang' and not getattr(engine, 'HANG_IS_VIOLATION', True):
        return [], None
    if kind in ('crash', 'hang'):
        sig = engine.sig_of(scenario) if hasattr(engine, 'sig_of') else {}
        v = dict(invariant=kind, detail=val, sig=sig)
        if sig.get('cls'):
            v['class'] = '%s %s' % (kind, sig['cls'])
        return [v], None
    if kind == 'error':
        return [dict(invariant='harness-exception', detail=val, sig={})], None
    return [], None


# ----------------------------------------------------------------------------
# known findings
def load_known(prop):
    p = os.path.join(VERIF, 'known_findings.json')
    if not os.path.exists(p):
        return []
    with open(p) as f:
        data = json.load(f)
    return [e for e in data.get('findings', []) if e.get('property') == prop]


def _match_value(have, want):
    if isinstance(want, dict):
        if 'in' in want:
            return have in want['in']
        if 'ge' in want:
            return have is not None and have >= want['ge']
        if 'ne' in want:
            return have != want['ne']
        if 'contains' in want:
            return have is not None and want['contains'] in have
    return have == want


def matches(violation, entry):
    sig = entry.get('signature', {})
    inv = sig.get('invariant')
    if isinstance(inv, list):
        if violation.get('invariant') not in inv:
            return False
    elif inv != violation.get('invariant'):
        return False
    vs = violation.get('sig', {}) or {}
    for k, want in sig.get('where', {}).items():
        if not _match_value(vs.get(k), want):
            return False
    return True


# ----------------------------------------------------------------------------
# shrinking (structural, on the scenario)
def _paths(obj, skip, pre=()):
    """yield (path, value) for every list and number in a JSON tree"""
    if isinstance(obj, dict):
        for k in sorted(obj):
            if k in skip:
                continue
            yield from _paths(obj[k], skip, pre + (k,))
    elif isinstance(obj, list):
        yield pre, obj
        for i, v in enumerate(obj):
            yield from _paths(v, skip, pre + (i,))
    elif isinstance(obj, (int, float)) and not isinstance(obj, bool):
        yield pre, obj


def _get(obj, path):
    for p in path:
        obj = obj[p]
    return obj


def _set(obj, path, val):
    obj = json.loads(json.dumps(obj))
    o = obj
    for p in path[:-1]:
        o = o[p]
    o[path[-1]] = val
    return obj


def shrink(engine, scenario, prop, invariant, max_runs=300, max_s=90, log=None):
    skip = set(getattr(engine, 'NO_SHRINK', ()))
    t0 = time.time()
    runs = [0]

    def fails(s):
        if runs[0] >= max_runs or time.time() - t0 > max_s:
            return False
        runs[0] += 1
        vs, _ = _iso_violations(engine, s, prop)
        return any(vclass(v) == invariant for v in vs)

    cur = json.loads(json.dumps(scenario))
    progress = True
    while progress and runs[0] < max_runs and time.time() - t0 < max_s:
        progress = False
        # 1. delete from lists (largest lists first)
        lists = [(p, v) for p, v in _paths(cur, skip) if isinstance(v, list) and v]
        lists.sort(key=lambda pv: -len(pv[1]))
        for path, _ in lists:
            try:
                lst = _get(cur, path)
            except (KeyError, IndexError, TypeError):
                continue
            if not isinstance(lst, list):
                continue
            size = max(1, len(lst) // 2)
            while size >= 1 and lst:
                i = len(lst) - size
                while i >= 0:
                    cand_l = lst[:i] + lst[i + size:]
                    cand = _set(cur, path, cand_l)
                    if fails(cand):
                        cur, lst = cand, cand_l
                        progress = True
                        i = min(i, len(lst)) - size
                    else:
                        i -= size
                    if runs[0] >= max_runs:
                        break
                if size == 1:
                    break
                size //= 2
        # 2. simplify numbers
        for path, v in list(_paths(cur, skip)):
            if isinstance(v, list):
                continue
            try:
                v = _get(cur, path)
            except (KeyError, IndexError, TypeError):
                continue
            if isinstance(v, bool) or not isinstance(v, (int, float)):
                continue
            cands = []
            if isinstance(v, int):
                if v != 0:
                    cands = [0, v // 2, v - 1 if v > 0 else v + 1]
            else:
                if v != 0.0:
                    cands = [0.0, 1.0, float(round(v)), round(v, 1), round(v, 3)]
            seen = set()
            for c in cands:
                if c == v or c in seen:
                    continue
                seen.add(c)
                cand = _set(cur, path, c)
                if fails(cand):
                    cur = cand
                    progress = True
                    break
    return cur, runs[0]


# ----------------------------------------------------------------------------
def _jsonable(o):
    return json.loads(json.dumps(o, default=str))


def write_replay(prop, engine, seed, scenario, violation, shrunk_from=None, path=None):
    d = os.path.join(VERIF, 'replays')
    os.makedirs(d, exist_ok=True)
    if path is None:
        import re
        path = os.path.join(d, '%s-%s-%s.json' % (prop, re.sub(r'[^A-Za-z0-9_.-]+', '_', vclass(violation))[:60], seed))
    with open(path, 'w') as f:
        json.dump(dict(property=prop, engine=engine.NAME, seed=seed,
                       scenario=_jsonable(scenario),
                       violation=_jsonable(violation),
                       shrunk_from=shrunk_from), f, indent=1, sort_keys=True)
    return path


def replay_file(engine, prop, path, quiet=False):
    with open(path) as f:
        rp = json.load(f)
    vs, res = _iso_violations(engine, rp['scenario'], prop)
    want = vclass(rp.get('violation', {'invariant': None}))
    hit = [v for v in vs if vclass(v) == want] or vs
    if not quiet:
        for v in vs:
            print('  violated: %s -- %s' % (v['invariant'], str(v['detail'])[:600]))
    return hit, vs


def fresh_replay(prop, path):
    """re-execute a replay file in a fresh interpreter (other hash seed)."""
    env = dict(os.environ)
    env['PYTHONHASHSEED'] = '12345'
    env['HOME'] = os.environ.get('VERIF_REAL_HOME', env.get('HOME', '/root'))
    env.pop('PYSPH_VERIF', None)
    r = subprocess.run([sys.executable, os.path.join(VERIF, 'check.py'), prop, '--replay', path],
                       env=env, stdout=subprocess.PIPE, stderr=subprocess.STDOUT, text=True,
                       timeout=900)
    return r.returncode == 1 and ('VIOLATION property=%s' % prop) in r.stdout, r.stdout


# ----------------------------------------------------------------------------
def run_check(engine, prop, tier, master, runs=None, budget_s=None, out=print):
    t_start = time.time()
    cfg = dict(engine.PROPS[prop].get(tier, {}))
    if runs is None:
        runs = cfg.get('runs', 1000)
    if budget_s is None:
        budget_s = cfg.get('budget_s', 60)
    scale = float(os.environ.get('VERIF_BUDGET_SCALE', '1'))
    budget_s *= scale
    runs = int(runs * scale)
    out('seed=%d property=%s tier=%s engine=%s max_runs=%d budget_s=%.0f' %
        (master, prop, tier, engine.NAME, runs, budget_s))
    exit_code = 0
    harness_errors = []
    violation_lines = []

    engine.prepare(prop, tier)

    # --- known findings / fixed regressions first
    known = load_known(prop)
    known_active = []
    for e in known:
        rp = os.path.join(VERIF, e['replay'])
        try:
            hit, vs = replay_file(engine, prop, rp, quiet=True)
        except Exception:
            harness_errors.append('replay of %s failed:\n%s' % (e['id'], traceback.format_exc()))
            continue
        hit = [v for v in vs if matches(v, e)]
        if e.get('status') == 'known':
            known_active.append(e)
            if hit:
                out('KNOWN-FINDING: property=%s %s: %s' % (prop, e['id'], e['description']))
            else:
                out('note: known finding %s did not reproduce from its stored replay' % e['id'])
        elif e.get('status') == 'fixed':
            if hit:
                violation_lines.append('VIOLATION property=%s replay=%s' % (prop, rp))
                out('regression of fixed finding %s: %s' % (e['id'], hit[0]['detail']))

    # --- seeded search
    outdir = os.path.join(os.environ.get('VERIF_CACHE', '/root/.cache/pysph_verif'),
                          'run-%d' % os.getpid())
    shutil.rmtree(outdir, ignore_errors=True)
    os.makedirs(outdir)
    deadline = time.time() + budget_s
    run_timeout = getattr(engine, 'RUN_TIMEOUT', 60)
    nw = max(1, min(NWORKERS, runs))
    live = {}        # pid -> (k, gen_id)
    gen_counter = [0]
    crashes = []     # (index, kind)

    def spawn(k, start):
        g = gen_counter[0]
        gen_counter[0] += 1
        pid = os.fork()
        if pid == 0:
            try:
                _worker(engine, prop, tier, master, k, g, start, nw, runs, deadline, outdir)
            except BaseException:
                traceback.print_exc()
            finally:
                os._exit(3)
        live[pid] = (k, g)

    sys.stdout.flush()
    for k in range(nw):
        spawn(k, k)

    def status_of(g):
        try:
            with open(os.path.join(outdir, 'status.%d' % g), 'rb') as f:
                a = f.read(48).split()
            return int(a[0]), float(a[1])
        except Exception:
            return -1, time.time()

    respawns = 0
    while live:
        try:
            pid, st = os.waitpid(-1, os.WNOHANG)
        except ChildProcessError:
            break
        if pid == 0:
            time.sleep(0.05)
            now = time.time()
            for p, (k, g) in list(live.items()):
                idx, ts = status_of(g)
                if idx >= 0 and now - ts > run_timeout:
                    try:
                        os.kill(p, signal.SIGKILL)
                    except OSError:
                        pass
                    os.waitpid(p, 0)
                    del live[p]
                    crashes.append((idx, 'hang'))
                    if respawns < 200 and time.time() < deadline:
                        respawns += 1
                        spawn(k, idx + nw)
            continue
        if pid not in live:
            continue
        k, g = live.pop(pid)
        ok = os.WIFEXITED(st) and os.WEXITSTATUS(st) == 0
        if not ok:
            idx, ts = status_of(g)
            if idx >= 0:
                crashes.append((idx, 'crash'))
                if respawns < 200 and time.time() < deadline:
                    respawns += 1
                    spawn(k, idx + nw)
            else:
                harness_errors.append('worker %d died outside a run (status %r)' % (k, st))

    acc = Acc()
    for fn in sorted(os.listdir(outdir)):
        if fn.startswith('res.') and not fn.endswith('.tmp'):
            try:
                with open(os.path.join(outdir, fn), 'rb') as f:
                    done, i, a = pickle.load(f)
                acc.merge(a)
            except Exception:
                harness_errors.append('could not read %s' % fn)
    shutil.rmtree(outdir, ignore_errors=True)
    search_wall = time.time() - t_start

    for idx, text in acc.errors[:5]:
        harness_errors.append('run %d: %s' % (idx, text))

    # --- crashes / hangs: confirm alone
    unrepro_known = {}
    for idx, kind in crashes[:10]:
        if kind == 'hang' and not getattr(engine, 'HANG_IS_VIOLATION', True):
            continue
        seed = derive_seed(master, prop, idx)
        try:
            scenario = engine.gen(Tape(seed), prop, tier)
        except Exception:
            harness_errors.append('generator failed for crashed run %d' % idx)
            continue
        vs, _ = _iso_violations(engine, scenario, prop)
        vs = [v for v in vs if v['invariant'] in ('crash', 'hang')]
        if vs:
            acc.nviol += 1
            acc.viol_classes[vs[0]['invariant']] = acc.viol_classes.get(vs[0]['invariant'], 0) + 1
            acc.violations.append((idx, seed, scenario, vs[0]))
        else:
            # memory-dependent crash: attribute it to a known finding that covers crashes of this
            # configuration, otherwise it is a problem of the harness (never a pass, never a violation)
            pv = dict(invariant='crash', detail='not reproduced alone',
                      sig=(engine.sig_of(scenario) if hasattr(engine, 'sig_of') else {}))
            e = next((e for e in known_active if matches(pv, e)), None)
            if e is not None:
                unrepro_known[e['id']] = unrepro_known.get(e['id'], 0) + 1
            else:
                harness_errors.append('run %d (%s) killed its worker but did not do so again alone' % (idx, kind))

    # --- triage violations
    known_hits = {}
    new_by_class = {}
    for (idx, seed, scenario, v) in sorted(acc.violations, key=lambda t: t[0]):
        e = next((e for e in known_active if matches(v, e)), None)
        if e is not None:
            known_hits[e['id']] = known_hits.get(e['id'], 0) + 1
            continue
        new_by_class.setdefault(vclass(v), []).append((idx, seed, scenario, v))

    shrink_runs = int(os.environ.get('VERIF_SHRINK_RUNS', '300'))
    for inv, lst in sorted(new_by_class.items())[:int(os.environ.get('VERIF_MAX_REPORT', '4'))]:
        idx, seed, scenario, v = lst[0]
        out('violation of %s invariant=%s at run %d seed %d (%d runs of this class): %s' %
            (prop, inv, idx, seed, len(lst), str(v['detail'])[:400]))
        try:
            small, n = shrink(engine, scenario, prop, inv, max_runs=shrink_runs)
            vs, _ = _iso_violations(engine, small, prop)
            vv = next((x for x in vs if vclass(x) == inv), None)
            if vv is None:
                small, vv = scenario, v
            # a shrunk instance that now matches a known signature is that finding
            e = next((e for e in known_active if matches(vv, e)), None)
            if e is not None and not any(matches(v, e2) for e2 in known_active):
                # shrinking drifted into a known finding: report the original instead
                small, vv = scenario, v
            path = write_replay(prop, engine, seed, small, vv,
                                shrunk_from=dict(run=idx, shrink_runs=n))
            ok, txt = fresh_replay(prop, path)
            if ok:
                out('  minimised after %d re-runs; reproduced in a fresh interpreter' % n)
                out('  %s' % str(vv['detail'])[:600])
                violation_lines.append('VIOLATION property=%s replay=%s' % (prop, path))
            else:
                harness_errors.append('violation %s (run %d) did not reproduce from %s in a fresh '
                                      'interpreter (nondeterministic harness)\n%s' % (inv, idx, path, txt[-800:]))
        except Exception:
            harness_errors.append('shrinking/reporting failed:\n' + traceback.format_exc())

    wall = time.time() - t_start
    # --- evidence
    probes_wanted = list(getattr(engine, 'PROBES', {}).get(prop, [])) if isinstance(getattr(engine, 'PROBES', None), dict) else []
    reach_gaps = [p for p in probes_wanted if acc.probes.get(p, 0) == 0]
    meta = engine.PROPS[prop]
    ev = dict(
        property_id=prop, tier=tier, seed=int(master), level='exploration',
        coverage=dict(
            evaluations=int(acc.evaluations),
            distinct_nontrivial=int(len(acc.digests)),
            rule=meta.get('rule', ''),
            samples=_jsonable(acc.samples[:3]),
            nontrivial_runs=int(acc.nontrivial),
            inconclusive_runs=int(acc.inconclusive),
            runs_per_hour=int(acc.evaluations / max(search_wall, 1e-6) * 3600),
            simulated=dict(amount=acc.sim, unit=meta.get('sim_unit', 'steps')),
            fault_kinds_fired=acc.faults,
            reach_probes=acc.probes,
            reach_gaps=reach_gaps,
            strata=acc.strata if len(acc.strata) <= 400 else dict(n_strata=len(acc.strata)),
            components=meta.get('components', {}),
            known_finding_matches=known_hits,
            unreproduced_crashes_attributed_to_known_findings=unrepro_known,
            violation_classes=acc.viol_classes,
            violation_strata=acc.viol_strata,
            generated_but_refused_as_invalid=acc.skipped,
            crashes_or_hangs=len(crashes) + acc.hangs,
            workers=nw,
            exhaustive=False,
        ),
        assumptions=meta.get('assumptions', []),
        wall_s=round(wall, 2),
        violations=len(violation_lines),
    )
    if not os.environ.get('VERIF_NO_EVIDENCE'):
        os.makedirs(os.path.join(VERIF, 'evidence'), exist_ok=True)
        with open(os.path.join(VERIF, 'evidence', prop + '.json'), 'w') as f:
            json.dump(ev, f, indent=1, sort_keys=True)

    out('runs=%d distinct_nontrivial=%d inconclusive=%d faults=%s wall=%.1fs' %
        (acc.evaluations, len(acc.digests), acc.inconclusive,
         json.dumps(acc.faults, sort_keys=True)[:300], wall))
    if known_hits:
        out('runs matching known findings: %s' % json.dumps(known_hits, sort_keys=True))
    if reach_gaps:
        out('reach gaps (probes never hit): %s' % ', '.join(reach_gaps))
    for h in harness_errors[:5]:
        out('HARNESS-ERROR %s' % h)
    if violation_lines:
        # a violation that was minimised and reproduced from its replay file in a fresh interpreter stands on its own,
        # whatever else went wrong in the batch (e.g. memory-dependent crashes of the same broken code)
        for l in violation_lines:
            out(l)
        return 1
    if harness_errors:
        return 2
    if acc.evaluations < 2:
        out('HARNESS-ERROR fewer than 2 runs were executed')
        return 2
    return 0


def digest_log(engine, prop, tier, master, n, path):
    """sequentially run indices 0..n-1 and write one line per run; used by the
    determinism self-test (two fresh interpreters must write identical files)."""
    engine.prepare(prop, tier)
    f0 = open(path, 'w')
    _quiet()
    with f0 as f:
        for i in range(n):
            seed = derive_seed(master, prop, i)
            sc = engine.gen(Tape(seed), prop, tier)
            try:
                kind, res = run_isolated(engine, sc, prop) if getattr(engine, 'CRASHY', False) else ('ok', engine.execute(sc, prop))
            except InvalidScenario:
                kind, res = 'invalid', None
            if kind != 'ok':
                f.write('%d %d %s\n' % (i, seed, kind))
                continue
            f.write('%d %d %d %d %s %s\n' % (i, seed, digest(sc), res.get('digest', 0),
                                             ','.join(sorted(v['invariant'] for v in res.get('violations', []))),
                                             json.dumps(res.get('probes', {}), sort_keys=True)))
