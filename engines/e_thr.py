"""E-THR: pysph/solver/controller.py under a simulated `threading` (C18).

Real code: the whole of controller.py (CommandManager, Controller, synchronized,
dispatch, add_interface ...) executed unmodified from the overlay with
`threading` / `_thread` resolving to vsim.simthreads; optionally the real
CommandlineInterface.start front end fed by a scripted input().
Fakes: the solver (attribute bag that records every write / particle access)
and the solver thread's loop of control points.
"""
import builtins
import io
import os
import sys

from vsim import simthreads as st
from vsim.choices import digest
from vsim.runner import InvalidScenario

NAME = 'E-THR'
CRASHY = False
RUN_TIMEOUT = 60
NO_SHRINK = {'policy_kind'}

SETTABLE = ['dt', 'tf', 'pfreq', 'fname', 'output_directory', 'detailed_output']
GETTABLE = ['t', 'tf', 'dt', 'count', 'pfreq', 'fname', 'detailed_output',
            'output_directory', 'command_interval']

PROPS = {
    'C18': dict(
        rule=('one run = one scenario (1-2 interface-thread programs over get/set/queued '
              'commands/get_result/pause_on_next/wait/cont, a scheduling policy and an explicit '
              'decision list) executed on the real controller.py under the simulated threading; '
              'a run is non-trivial when a command was queued or a pause episode happened, and '
              'distinct when the (thread, sync-event) sequence differs'),
        sim_unit='synchronisation events',
        components=dict(real=['pysph/solver/controller.py (all of it, unmodified source)',
                              'pysph/solver/solver_interfaces.py CommandlineInterface.start (share of runs)'],
                        fake=['solver object (attribute bag recording writes)',
                              'solver thread loop (count += 1; execute_commands(solver)) in 70% of the runs; the real Solver.solve with a no-op integrator drives the control points in the rest',
                              'threading/_thread (vsim.simthreads)', 'injected size-1 communicator whose bcast/gather are scheduling points (half of the runs)', 'input()/print() of the command line front end'],
                        not_simulated=['XML-RPC and multiprocessing front ends (need sockets)',
                                       'blocking-mode commands are executed in the caller, not queued: not covered by the statement']),
        assumptions=['pre-emption only at synchronisation primitives (the property\'s stated granularity)',
                     'CPython Condition semantics: FIFO notify, no spurious wake-ups',
                     'documented preconditions respected: wait/cont only after pause_on_next, one wait per episode',
                     'liveness is judged under a fair (round-robin) schedule after the adversarial phase'],
        quick=dict(runs=200000, budget_s=70),
        thorough=dict(runs=3000000, budget_s=1200),
    ),
}

PROBES = {'C18': ['solver_paused_nonempty', 'two_pausers', 'notify_no_waiter', 'interface_threads_with_equal_names', 'two_waiters_meet_before_cont', 'generated_method_called_with_keywords', 'one_controller_shared_by_two_threads',
                  'queued_while_paused', 'get_result_before_exec', 'get_result_after_exec',
                  'queue_nonempty_at_cp_entry', 'cont_while_solver_between_cps',
                  'wait_returned', 'cli_frontend_runs', 'drain_phase_needed', 'real_solver_loop']}

_SRC = {}


def prepare(prop, tier):
    from vsim import build
    info = build.activate()
    import logging  # noqa
    import pysph.base.particle_array  # noqa  (imported for real before the substitution)
    _SRC['controller'] = os.path.join(info['overlay'], 'pysph', 'solver', 'controller.py')
    _SRC['interfaces'] = os.path.join(info['overlay'], 'pysph', 'solver', 'solver_interfaces.py')
    import xmlrpc.server, http.server, multiprocessing.managers, socket  # noqa


# ----------------------------------------------------------------------------
def _gen_ops(t, regime, depth=0):
    n = t.int(1, regime['max_ops'])
    ops = []
    for _ in range(n):
        kinds = [('get', 2), ('status', 1), ('yield', 1)]
        if regime['queue']:
            kinds += [('qset', 4), ('qnamed', 3), ('qnames', 1), ('get_result', 5), ('task_locked', 1)]
        if regime['blocking_set']:
            kinds += [('bset', 1)]
        if regime['pause'] and depth == 0:
            kinds += [('pause', 5)]
        k = t.wchoice(kinds)
        if k == 'get':
            ops.append(['get', t.choice(GETTABLE)])
        elif k == 'qset':
            ops.append(['qset', t.choice(SETTABLE)])
        elif k == 'bset':
            ops.append(['bset', t.choice(SETTABLE)])
        elif k == 'get_result':
            ops.append(['get_result', t.int(0, 3)])
        elif k == 'task_locked':
            ops.append(['task_locked', t.int(0, 3)])
        elif k == 'pause':
            inner_regime = dict(regime)
            inner_regime['max_ops'] = 3
            if not regime['inner_queue']:
                inner_regime['queue'] = False
            inner = _gen_ops(t, inner_regime, 1) if t.bool(0.7) else []
            ops.append(['pause', 1 if (regime['wait'] and t.bool(0.7)) else 0, inner])
        else:
            ops.append([k])
    return ops


def gen(t, prop, tier):
    regime = dict(
        queue=t.bool(0.8), blocking_set=t.bool(0.3), pause=t.bool(0.75), wait=t.bool(0.8),
        inner_queue=t.bool(0.5), max_ops=t.choice([2, 3, 4, 6, 8]))
    n_iface = t.wchoice([(1, 4), (2, 6)])
    cli = t.bool(0.12)
    programs = []
    for i in range(n_iface):
        if cli and i == 0:
            programs.append(dict(kind='cli', lines=_gen_cli(t, regime)))
        else:
            programs.append(dict(kind='ops', ops=_gen_ops(t, regime)))
    kind = t.wchoice([('random', 5), ('pct', 3), ('sticky', 3)])
    policy = dict(kind=kind)
    if kind == 'pct':
        policy['prios'] = t.shuffle([1, 2, 3])
        policy['changes'] = sorted(set(t.int(1, 120) for _ in range(t.int(1, 3))))
    if kind == 'sticky':
        policy['stick'] = t.choice([2, 3, 5, 8])
    if t.bool(0.25):
        a = t.int(1, 80)
        policy['starve'] = {'tid': t.int(0, n_iface), 'from': a, 'to': a + t.int(5, 60)}
    sc = dict(programs=programs, policy_kind=kind, policy=policy,
              sched=[t.int(0, 5) for _ in range(t.choice([40, 120, 300]))],
              max_cp=t.choice([6, 12, 25]), spurious=0, comm_yield=1 if t.bool(0.5) else 0,
              real_solver=1 if t.bool(0.3) else 0, command_interval=t.choice([1, 1, 2, 3]))
    # interface threads created by the user with one and the same name (thread names need not be unique)
    sc['same_names'] = 1 if (n_iface > 1 and t.bool(0.25)) else 0
    sc['shared_controller'] = 1 if (n_iface > 1 and not cli and t.bool(0.2)) else 0
    # two front ends that both pause, wait, and meet each other before either of them continues (both wait() calls must return)
    if n_iface == 2 and not cli and regime['pause'] and t.bool(0.15):
        for prog in programs:
            prog['ops'].insert(0, ['pause', 1, [], 'meet'])
    return sc


def _gen_cli(t, regime):
    lines = []
    for _ in range(t.int(1, 6)):
        k = t.wchoice([('p', 3), ('c', 3), ('g', 2), ('s', 2), ('status', 1), ('bad', 1)])
        if k == 'g':
            lines.append('g ' + t.choice(GETTABLE))
        elif k == 's':
            lines.append('s ' + t.choice(SETTABLE))     # value appended at run time (unique)
        elif k == 'status':
            lines.append('get_status')
        elif k == 'bad':
            lines.append(t.choice(['', 'frobnicate', 'g nosuch']))
        else:
            lines.append(k)
    return lines


def describe(sc):
    return sc


# ----------------------------------------------------------------------------
class SimComm(object):
    """an injected communicator (constructor seam of CommandManager) of size 1
    whose collective calls are blocking points at which other threads may run,
    as they are with a real MPI communicator"""
    size = 1

    def Get_size(self):
        return 1

    def Get_rank(self):
        return 0

    def bcast(self, data):
        st.yield_now('bcast')
        return data

    def gather(self, data):
        st.yield_now('gather')
        return [data]


class FakePA(object):
    def __init__(self, h, name):
        object.__setattr__(self, '_h', h)
        object.__setattr__(self, 'name', name)

    def set_time(self, t):
        pass

    def __getattr__(self, p):
        if p.startswith('tag_'):
            self._h.exec_event('named', p)
            return ('val', p)
        raise AttributeError(p)


class FakeSolver(object):
    def __init__(self, h):
        d = self.__dict__
        d['_h'] = h
        d['t'] = 0.0
        d['tf'] = 1.0
        d['dt'] = 0.01
        d['count'] = 0
        d['pfreq'] = 100
        d['fname'] = 'fake'
        d['detailed_output'] = False
        d['output_directory'] = 'fake_output'
        d['command_interval'] = 1
        d['particles'] = [FakePA(h, 'fluid'), FakePA(h, 'solid')]

    def __setattr__(self, name, value):
        self.__dict__[name] = value
        if name != 'count':
            self._h.exec_event('set', value)

    def dump_output(self):
        return None


class Harness(object):
    def __init__(self, sc):
        self.sc = sc
        self.S = None
        self.violations = []
        self.probes = {}
        self.in_cp = False
        self.cp_index = 0
        self.cp_enter_seq = 0
        self.issued = {}       # key (unique value / tag) -> dict(tid_str, thread, queued_seq, kind)
        self.execs = {}        # key -> list of (seq, in_cp, thread tid)
        self.holding = {}      # iface index -> count at wait() return
        self.uniq = 0
        self.iface_threads = []
        self.iface_done = []
        self.iface_left = []
        self.solver_thread = None
        self.phase = 'main'
        self.nqueued = 0
        self.npause = 0
        self.conclusive_end = False
        self.settable = list(SETTABLE)

    def probe(self, name, n=1):
        self.probes[name] = self.probes.get(name, 0) + n

    def violate(self, invariant, detail, **sig):
        if len(self.violations) < 8:
            self.violations.append(dict(invariant=invariant, detail=detail, sig=sig))

    def exec_event(self, kind, key):
        cur = self.S.current
        tid = cur.tid if cur is not None else -1
        lst = self.execs.setdefault(key, [])
        if lst and lst[-1][0] == self.S.seq:
            return      # hasattr + getattr of one execution (no sync event in between)
        lst.append((self.S.seq, self.in_cp, tid))
        info = self.issued.get(key)
        if info is None:
            return      # a blocking-mode set, executed in the caller: not a queued command
        if len(self.execs[key]) > 1:
            self.violate('executed-twice', 'queued command %r executed %d times' % (key, len(self.execs[key])))
        if self.solver_thread is not None and tid != self.solver_thread.tid:
            self.violate('executed-off-solver-thread', 'queued command %r executed on thread %d' % (key, tid))
        elif not self.in_cp:
            self.violate('executed-outside-control-point', 'queued command %r executed outside execute_commands' % (key,))

    def fresh(self, prefix):
        self.uniq += 1
        return '%s%d' % (prefix, self.uniq)


def _iface_ops(h, ctrl, idx, ops, cm, tids, depth=0):
    S = h.S
    SETTABLE = h.settable
    for opi, op in enumerate(ops):
        if not isinstance(op, list) or not op:
            continue
        k = op[0]
        h.iface_left[idx] -= 1
        if k == 'get':
            name = op[1] if len(op) > 1 and op[1] in GETTABLE else 'dt'
            ctrl.get(name)
        elif k == 'status':
            ctrl.get_status()
        elif k == 'yield':
            st.yield_now('yield')
        elif k == 'bset':
            name = op[1] if len(op) > 1 and op[1] in SETTABLE else SETTABLE[0]
            ctrl.set_blocking(True)
            ctrl.set(name, h.fresh('b'))
        elif k in ('qset', 'qnamed', 'qnames'):
            ctrl.set_blocking(False)
            if k == 'qset':
                name = op[1] if len(op) > 1 and op[1] in SETTABLE else SETTABLE[0]
                key = h.fresh('v')
                h.issued[key] = dict(kind='set', thread=idx, queued_seq=None, tid=None)
                tid = ctrl.set(name, key)
                expect = None
            elif k == 'qnamed':
                key = h.fresh('tag_')
                h.issued[key] = dict(kind='named', thread=idx, queued_seq=None, tid=None)
                # the generated controller methods take their arguments by position or by keyword
                if h.uniq % 2:
                    tid = ctrl.get_named_particle_array('fluid', props=[key])
                    h.probe('generated_method_called_with_keywords')
                else:
                    tid = ctrl.get_named_particle_array('fluid', [key])
                expect = [('val', key)]
            else:
                key = h.fresh('n')
                h.issued[key] = dict(kind='names', thread=idx, queued_seq=None, tid=None)
                tid = ctrl.get_particle_array_names()
                expect = ['fluid', 'solid']
            h.issued[key]['tid'] = tid
            h.issued[key]['queued_seq'] = S.seq
            h.nqueued += 1
            if h.holding:
                h.probe('queued_while_paused')
            if not isinstance(tid, str):
                h.violate('dispatch-return', 'non-blocking dispatch returned %r, not a task id' % (tid,))
            else:
                tids.append((tid, key, expect))
        elif k == 'get_result':
            if tids:
                j = (op[1] if len(op) > 1 and isinstance(op[1], int) else 0) % len(tids)
                tid, key, expect = tids.pop(j)
                if h.issued[key]['kind'] != 'names':
                    h.probe('get_result_after_exec' if h.execs.get(key) else 'get_result_before_exec')
                res = ctrl.get_result(tid)
                if h.issued[key]['kind'] != 'names' and not h.execs.get(key):
                    h.violate('result-before-execution', 'get_result(%s) returned before command %r ran' % (tid, key))
                if res != expect:
                    h.violate('wrong-result', 'get_result for %r returned %r, expected %r' % (key, res, expect))
                h.issued[key]['fetched'] = True
        elif k == 'task_locked':
            if tids:
                j = (op[1] if len(op) > 1 and isinstance(op[1], int) else 0) % len(tids)
                tid, key, expect = tids[j]
                locked = ctrl.get_task_lock(tid).locked()
                if h.issued[key]['kind'] != 'names':
                    done = bool(h.execs.get(key))
                    if locked and done:
                        h.violate('task-lock-state', 'task lock of executed command %r still locked' % key)
        elif k == 'pause' and depth == 0:
            h.npause += 1
            ctrl.pause_on_next()
            if len(op) > 1 and op[1]:
                ctrl.wait()
                h.probe('wait_returned')
                if not h.in_cp:
                    h.violate('wait-returned-early',
                              'wait() returned while the solver was not at a control point')
                h.holding[idx] = h.solver.count
                if len(h.holding) > 1:
                    h.probe('two_pausers')
            inner = op[2] if len(op) > 2 and isinstance(op[2], list) else []
            if len(op) > 3 and op[3] == 'meet' and op[1] and h.meet_parties == 2:
                # rendezvous with the other interface thread between wait() and cont()
                with h.meet_cond:
                    h.meet_n += 1
                    h.meet_cond.notify_all()
                    while h.meet_n < 2:
                        h.meet_cond.wait()
                h.probe('two_waiters_meet_before_cont')
            _iface_ops(h, ctrl, idx, inner, cm, tids, depth + 1)
            h.iface_left[idx] += len(inner)
            if not h.in_cp:
                h.probe('cont_while_solver_between_cps')
            if idx in h.holding:
                if h.solver.count != h.holding[idx]:
                    h.violate('progress-while-paused', 'solver advanced from count %d to %d between wait() and cont()'
                              % (h.holding[idx], h.solver.count))
                del h.holding[idx]
            ctrl.cont()


def _count_ops(ops):
    n = 0
    for op in ops:
        n += 1
        if isinstance(op, list) and op and op[0] == 'pause' and len(op) > 2 and isinstance(op[2], list):
            n += len(op[2])
    return n


class _CLIInput(object):
    def __init__(self, h, lines):
        self.h = h
        self.lines = list(lines)
        self.i = 0
        self.paused = False

    def __call__(self, prompt=''):
        st.yield_now('input')
        if self.i >= len(self.lines):
            if self.paused:         # a well-formed session continues before it quits
                self.paused = False
                return 'c'
            return 'q'
        line = self.lines[self.i]
        self.i += 1
        if not isinstance(line, str):
            return ''
        if line in ('p', 'pause'):
            self.paused = True
        elif line in ('c', 'cont'):
            if not self.paused:     # cont() outside a pause episode is a documented misuse
                return 'get_status'
            self.paused = False
        elif line in ('q', 'quit') and self.paused:
            self.paused = False
            return 'c'
        if line.startswith('s ') and len(line.split()) == 2:
            nm = line.split()[1]
            if nm not in self.h.settable:
                nm = self.h.settable[0]
            line = 's ' + nm + ' ' + repr(self.h.fresh('c'))
        return line


def execute(sc, prop):
    try:
        programs = sc['programs']
        policy = dict(sc.get('policy') or {})
        sched = [int(x) for x in sc.get('sched', [])]
        max_cp = int(sc.get('max_cp', 12))
        assert isinstance(programs, list) and 1 <= len(programs) <= 3
    except Exception as e:
        raise InvalidScenario(repr(e))
    policy['kind'] = sc.get('policy_kind', policy.get('kind', 'random'))
    h = Harness(sc)
    if sc.get('real_solver'):
        # properties the real loop computes with (dt, tf, pfreq) are left alone
        h.settable = ['fname', 'output_directory', 'detailed_output']
    S = st.Scheduler(sched=sched, policy=policy, max_events=6000, spurious=bool(sc.get('spurious')))
    h.S = S
    st.install(S)
    ctl = st.exec_module_with_simthreads('verif_controller', _SRC['controller'])
    solver = FakeSolver(h)
    h.solver = solver
    if sc.get('comm_yield'):
        cm = ctl.CommandManager(solver, comm=SimComm())
    else:
        cm = ctl.CommandManager(solver)
    for nm in ('rlock', 'res_lock', 'plock', 'qlock'):
        o = getattr(cm, nm)
        o.label = nm
        if hasattr(o, '_lock'):
            o._lock.label = nm + '.lock'
    n_if = len(programs)
    h.iface_done = [False] * n_if
    h.iface_left = [0] * n_if
    # rendezvous of two interface threads: both programs must hold the 'meet' pause, else nobody waits for anybody
    h.meet_parties = sum(1 for p in programs if p.get('kind') != 'cli' and isinstance(p.get('ops'), list) and
                         any(isinstance(o, list) and len(o) > 3 and o[0] == 'pause' and o[3] == 'meet' and o[1] for o in p['ops']))
    if h.meet_parties == 2 and sum(1 for p in programs for o in p.get('ops', []) if isinstance(o, list) and len(o) > 3 and o[3] == 'meet') != 2:
        h.meet_parties = 0
    h.meet_n = 0
    h.meet_cond = st.Condition()
    h.meet_cond.label = 'meet'
    cli_mode = False

    shared_ctrl = [None]
    if sc.get('shared_controller') and len(programs) == 2 and all(p.get('kind') != 'cli' for p in programs):
        # one Controller object served to both front ends (what the multiprocessing / XML-RPC interfaces do)
        shared_ctrl[0] = ctl.Controller(cm, True)
        h.probe('one_controller_shared_by_two_threads')

    def make_iface(idx, prog):
        def body(ctrl):
            if shared_ctrl[0] is not None:
                ctrl = shared_ctrl[0]
            try:
                if prog.get('kind') == 'cli':
                    ifm = st.exec_module_with_simthreads('verif_interfaces', _SRC['interfaces'],
                                                         extra_globals={'input': _CLIInput(h, prog.get('lines', [])),
                                                                        'print': lambda *a, **k: None})
                    ifm.CommandlineInterface().start(ctrl)
                else:
                    _iface_ops(h, ctrl, idx, prog.get('ops', []), cm, [])
            finally:
                h.iface_done[idx] = True
        return body

    cp_state = dict(ncp=0, drain=0, drain_budget=None)

    def control_point(sv):
        """one control point on the solver thread; returns True when the solver should stop"""
        all_done = all(h.iface_done)
        h.in_cp = True
        h.cp_index += 1
        h.cp_enter_seq = S.seq
        if cm.queue:
            h.probe('queue_nonempty_at_cp_entry')
        S.event('cp_enter')
        cm.execute_commands(sv)
        # commands fully queued before this control point began must have run in it
        for key, info in h.issued.items():
            qs = info.get('queued_seq')
            if qs is not None and qs < h.cp_enter_seq and info['kind'] != 'names' and not h.execs.get(key):
                h.violate('not-executed-at-next-control-point',
                          'command %r queued at event %d was not executed by the control point that began at event %d'
                          % (key, qs, h.cp_enter_seq))
        h.in_cp = False
        S.event('cp_exit')
        cp_state['ncp'] += 1
        if all_done:
            h.conclusive_end = True
            return True
        if h.phase == 'main' and cp_state['ncp'] >= max_cp:
            h.phase = 'drain'
            h.probe('drain_phase_needed')
            S.fair = True
            left = sum(max(0, x) for x in h.iface_left)
            for p in programs:
                if p.get('kind') == 'cli':
                    left += len(p.get('lines', [])) + 1
            cp_state['drain_budget'] = 2 * left + 4
        if h.phase == 'drain':
            # let the interface threads run until each is blocked or finished
            spin = 0
            while spin < 4000 and any(t.state in (st.RUNNABLE, st.TIMED) for t in h.iface_threads):
                st.yield_now('drain')
                spin += 1
            cp_state['drain'] += 1
            if cp_state['drain'] > cp_state['drain_budget'] and not all(h.iface_done):
                stuck = [getattr(t, 'label', t.name) + ' on ' + repr(t.blocked_on) for t in h.iface_threads if t.state == st.BLOCKED]
                h.violate('no-progress-under-fair-schedule',
                          'after %d further control points under a fair schedule interface thread(s) are still blocked: %s'
                          % (cp_state['drain'], '; '.join(stuck)))
                return True
        else:
            st.yield_now('between')
        return False

    def progress_check():
        if h.holding:
            h.violate('progress-while-paused',
                      'solver started a new iteration while interface thread(s) %s hold it paused' % sorted(h.holding))

    if sc.get('real_solver'):
        # the real time-marching loop (pysph/solver/solver.py has no threading of its own) drives the control points
        import pysph.solver.solver as SM

        class RecSolver(SM.Solver):
            def __setattr__(self, k, v):
                object.__setattr__(self, k, v)
                if isinstance(v, str) and v[:1] in ('v', 'b', 'c') and v[1:].isdigit():
                    h.exec_event('set', v)

        class _Integ(object):
            def initial_acceleration(self, t, dt):
                pass

            def step(self, t, dt):
                pass

            def compute_time_step(self, dt, cfl):
                return None

        real = RecSolver(dim=1, integrator=_Integ(), tf=1e9, dt=1.0, pfreq=10 ** 9)
        real.particles = solver.particles
        object.__setattr__(real, 'dump_output', lambda: None)
        real.pre_step_callbacks.append(lambda sv: progress_check())

        def handler(sv):
            if control_point(sv):
                object.__setattr__(sv, 'tf', sv.t)
        real.set_command_handler(handler, max(1, int(sc.get('command_interval', 1))))
        cm.solver = real
        solver = real
        h.solver = real
        h.probe('real_solver_loop')

        def solver_main():
            real.solve(show_progress=False)
    else:
        def solver_main():
            while True:
                progress_check()
                solver.__dict__['count'] += 1
                solver.__dict__['t'] += solver.__dict__['dt'] if isinstance(solver.__dict__['dt'], float) else 0.01
                if control_point(solver):
                    return

    for idx, prog in enumerate(programs):
        if not isinstance(prog, dict):
            raise InvalidScenario('program')
        if prog.get('kind') == 'cli':
            cli_mode = True
        else:
            if not isinstance(prog.get('ops', []), list):
                raise InvalidScenario('ops')
            h.iface_left[idx] = _count_ops(prog.get('ops', []))
    solver_thread = st.Thread(target=solver_main, name='solver')
    h.solver_thread = solver_thread
    solver_thread.start()
    for idx, prog in enumerate(programs):
        thr = cm.add_interface(make_iface(idx, prog), block=True)
        thr.label = 'iface%d' % idx          # what the reports of this harness call the thread
        thr.name = 'viewer' if sc.get('same_names') else thr.label
        if sc.get('same_names') and idx == 1:
            h.probe('interface_threads_with_equal_names')
        h.iface_threads.append(thr)
    if cli_mode:
        h.probe('cli_frontend_runs')
    outcome = S.run()
    st.install(None)

    inconclusive = False
    if outcome == 'deadlock':
        pat = '|'.join('%s@%s' % (getattr(t, 'label', t.name), getattr(t.blocked_on, 'label', None) or 'tasklock')
                       for t in S.threads if t.state in (st.BLOCKED, st.TIMED))
        h.violations.insert(0, dict(invariant='deadlock', detail='no runnable thread: ' + S.blocked_report(),
                                    sig=dict(pattern=pat), **{'class': 'deadlock ' + pat}))
    elif outcome == 'steps':
        inconclusive = True
    for tid, name, rep, tb in S.thread_exc:
        short = rep.split('(')[0]
        h.violate('thread-exception', 'thread %s died with %s\n%s' % (name, rep, tb[-700:]), exc=short)
    if h.conclusive_end and outcome == 'done':
        for key, info in h.issued.items():
            if info.get('queued_seq') is None or info['kind'] == 'names':
                continue
            n = len(h.execs.get(key, []))
            if n != 1:
                h.violate('not-exactly-once', 'queued command %r was executed %d times by the end of the run' % (key, n))
    if S.counters.get('notify_no_waiter'):
        h.probe('notify_no_waiter', S.counters['notify_no_waiter'])
    # was the solver ever inside wait_for_cmd with a non-empty pause set?
    if any(k == 'wait' and t == solver_thread.tid for t, k in S.trace):
        h.probe('solver_paused_nonempty')
    dg = digest(repr(S.trace))
    return dict(violations=h.violations, digest=dg,
                nontrivial=bool(h.nqueued or h.npause), faults=dict(
                    starved_decisions=S.counters.get('starved_decisions', 0),
                    lock_contended=S.counters.get('lock_contended', 0)),
                probes=h.probes, sim=float(S.seq), inconclusive=inconclusive)
