#!/bin/sh
# tools/thorough_smoke.sh [scale]: every thorough command (or those named in PROPS) with a scaled budget (no evidence written)
cd "$(dirname "$0")/.." || exit 2
S=${1:-0.03}
rc=0
IDS=${PROPS:-$(/venv/bin/python -c "import json;print(' '.join(c['property_id'] for c in json.load(open('MANIFEST.json'))['checks']))")}
for id in $IDS; do
  t0=$(date +%s)
  VERIF_BUDGET_SCALE=$S VERIF_NO_EVIDENCE=1 ./check $id --tier thorough > /tmp/thor_$id.out 2>&1; r=$?
  echo "$id thorough(scale $S) exit=$r $(( $(date +%s) - t0 ))s $(grep '^runs=' /tmp/thor_$id.out | cut -c1-80)"
  if [ $r -ne 0 ]; then rc=1; grep -E "^(VIOLATION|HARNESS|violation of)" /tmp/thor_$id.out | cut -c1-300; fi
done
exit $rc
