"""E-SOLVE: Solver.solve (the real time-marching loop) under a scripted
environment (C10).

Real: Solver.__init__, solve, _get_timestep, _compute_timestep, _damp_timestep,
_dump_output_if_needed, _get_solver_data, update_particle_time, callbacks,
ProgressBar.  Fakes: integrator (records steps, answers adaptive step sizes from
the scenario), particle arrays (set_time only), dump_output (records), the wall
clock read by the progress bar, stdout (a fake tty).
"""
import math
import sys

from vsim.choices import digest
from vsim.runner import InvalidScenario

NAME = 'E-SOLVE'
CRASHY = False
RUN_TIMEOUT = 120
NO_SHRINK = set()

PROPS = {
    'C10': dict(
        rule=('one run = one configuration (dt, tf, pfreq, requested output times, n_damp, max_steps, '
              'adaptive answers, callbacks, command handler, clock jumps) executed by the real Solver.solve '
              'with a fake integrator; trace predicates over the recorded step/dump history; non-trivial = '
              'at least 2 steps; distinct = digest of the (step kind, dump) pattern'),
        sim_unit='simulated solver time (sum of tf reached)',
        components=dict(real=['pysph/solver/solver.py Solver (time loop, step-size logic, output schedule)',
                              'pysph/solver/utils.py ProgressBar'],
                        fake=['integrator (initial_acceleration/step/compute_time_step)', 'particle arrays (set_time)',
                              'dump_output (records t, count, _get_solver_data())', 'time.time of the progress bar',
                              'sys.stdout (fake tty)']),
        assumptions=['the damping factor is the one the code documents/implements: 0.5(sin(pi(-0.5+(count+1)/n_damp))+1)',
                     'tolerances are 4x the solver\'s own epsilon (2*eps*tf*count)',
                     'requested output times are strictly increasing and separated by more than 8 epsilon (duplicates form a separate input class)'],
        quick=dict(runs=200000, budget_s=60),
        thorough=dict(runs=4000000, budget_s=1200),
    ),
}

PROBES = {'C10': ['landed_on_requested_time', 'prev_dt_restored', 'two_requested_in_one_step',
                  'requested_equals_step_time', 'requested_equals_tf', 'tf_clip', 'damping_during_landing',
                  'adaptive_none', 'max_steps_stop', 'requested_in_first_step', 'clock_jump_back',
                  'dt_larger_than_tf', 'adaptive_jump', 'configured_through_setters', 'times_set_before_tf', 'continued_with_a_second_solve', 'damping_switched_off_for_the_continuation']}

EPS2 = 2 * sys.float_info.epsilon
SETTER_KEYS = ['tf', 'times', 'dt', 'pfreq', 'n_damp', 'adaptive']


def prepare(prop, tier):
    from vsim import build
    build.activate()
    import pysph.solver.solver  # noqa
    import pysph.solver.utils  # noqa


DT_GRID = [1.0, 0.5, 0.25, 0.125, 2.0 ** -6, 0.1, 0.01, 1e-3, 1e-4, 0.3, 0.07, 1.0 / 3.0, 0.013, 2.5e-5, 3.0, 17.0]
NSTEP_GRID = [1, 2, 3, 4, 5, 7, 10, 16, 33, 64, 100, 257, 1000, 2500]
FRAC_GRID = [0.0, 0.0, 0.0, 0.5, 0.25, 1e-9, 0.999999, 0.3333, 0.7, 1e-3]


def gen(t, prop, tier):
    dt = t.choice(DT_GRID)
    if t.bool(0.2):
        dt = dt * t.choice([1e-3, 1e3, 1.1, 0.9])
    n = t.choice(NSTEP_GRID if tier == 'thorough' else NSTEP_GRID[:-1])
    tf = dt * (n + t.choice(FRAC_GRID))
    if t.bool(0.04):
        tf = dt * t.choice([0.5, 0.999, 1e-3])      # dt > tf
    pfreq = t.choice([1, 1, 2, 3, 5, 10, 100, 1000])
    adaptive = t.bool(0.45)
    n_damp = t.choice([0, 0, 0, 1, 2, 5, 10, 50])
    # requested output times
    times = []
    dup = t.bool(0.03)
    if t.bool(0.7):
        for _ in range(t.int(1, 6)):
            k = t.wchoice([('rand', 4), ('steptime', 3), ('cluster', 2), ('first', 2), ('tf', 1), ('outside', 1), ('ulp', 1)])
            if k == 'rand':
                times.append(tf * t.unit())
            elif k == 'steptime':
                times.append(dt * t.int(1, max(1, n)))
            elif k == 'cluster':
                base = tf * t.unit()
                for j in range(t.int(2, 4)):
                    times.append(base + j * dt * t.choice([0.1, 0.3, 0.01, 0.5]))
            elif k == 'first':
                times.append(dt * t.choice([0.12, 0.5, 0.9, 0.999]))
            elif k == 'tf':
                times.append(tf)
            elif k == 'outside':
                times.append(t.choice([0.0, -dt, tf * 1.5, tf + dt]))
            else:
                base = dt * t.int(1, max(1, n))
                times.append(base * (1 + t.choice([-1, 1, -3, 4]) * sys.float_info.epsilon))
        if dup and times:
            times.append(t.choice(times))
    times = sorted(times)
    answers = []
    if adaptive:
        style = t.wchoice([('const', 2), ('slow', 3), ('jump', 3), ('none', 2), ('mixed', 3)])
        m = t.int(1, 12)
        for _ in range(m):
            if style == 'const':
                answers.append(dt * 0.8)
            elif style == 'slow':
                answers.append(dt * t.choice([0.9, 1.0, 1.1, 0.95, 1.05, 0.5, 1.5]))
            elif style == 'jump':
                answers.append(dt * t.choice([1e-2, 0.1, 1.0, 10.0, 100.0, 0.5, 2.0]))
            elif style == 'none':
                answers.append(None if t.bool(0.7) else dt * t.choice([0.5, 1.0, 2.0]))
            else:
                answers.append(t.choice([None, dt * 0.5, dt, dt * 2, dt * 0.1, dt * 7.3, dt * 1e-2]))
    max_steps = None
    if adaptive or t.bool(0.1):
        max_steps = t.choice([1, 2, 5, 50, 400, 4000])
    clock = []
    tty = t.bool(0.3)
    if tty and t.bool(0.6):
        clock = [t.choice([0.0, 0.01, 1.0, -5.0, 3600.0, -1e6, 1e9]) for _ in range(t.int(1, 5))]
    sc = dict(dt=dt, tf=tf, pfreq=pfreq, times=times, dup_class=1 if dup else 0, n_damp=n_damp,
              adaptive=1 if adaptive else 0, answers=answers, max_steps=max_steps,
              n_pre=t.choice([0, 0, 1, 2]), n_post=t.choice([0, 0, 1, 2]),
              cmd_interval=t.choice([0, 0, 1, 3]), tty=1 if tty else 0, clock=clock,
              dt_as_int=1 if t.bool(0.03) else 0)
    # parameters given through the setters (in a drawn order, before solve()) instead of the constructor,
    # the way Application configures a solver
    if t.bool(0.3):
        sc['setters'] = t.shuffle([k for k in SETTER_KEYS if t.bool(0.6)])
    sc['resume'] = int(max_steps is not None and t.bool(0.4))
    sc['resume_no_damping'] = int(sc['resume'] and n_damp > 0 and t.bool(0.4))
    return sc


def describe(sc):
    return sc


class FakeIntegrator(object):
    def __init__(self, h, answers):
        self.h = h
        self.answers = answers
        self.k = 0

    def initial_acceleration(self, t, dt):
        self.h.log.append(('init_acc', t, dt))

    def step(self, t, dt):
        self.h.log.append(('step', t, dt))
        self.h.nsteps += 1

    def compute_time_step(self, dt, cfl):
        # the stable step is a function of the *state*: after k steps it is
        # answers[k % len]; asking twice in the same state gives the same answer
        if not self.answers:
            a = None
        else:
            a = self.answers[self.h.nsteps % len(self.answers)]
        self.h.log.append(('cts', dt, a))
        return a

    def set_post_stage_callback(self, cb):
        pass


class FakePA(object):
    name = 'fluid'

    def __init__(self, h):
        self.h = h

    def set_time(self, t):
        self.h.log.append(('set_time', t))


class FakeClock(object):
    def __init__(self, jumps):
        self.now = 1000.0
        self.jumps = list(jumps)
        self.k = 0
        self.back = 0

    def time(self):
        if self.jumps:
            j = self.jumps[self.k % len(self.jumps)]
            self.k += 1
            if j < 0:
                self.back += 1
            self.now += j
        else:
            self.now += 0.001
        return self.now

    def __getattr__(self, name):
        import time as _t
        return getattr(_t, name)


class FakeTTY(object):
    encoding = 'utf-8'

    def __init__(self):
        self.n = 0

    def isatty(self):
        return True

    def write(self, s):
        self.n += len(s)

    def flush(self):
        pass


class H(object):
    pass


def _damp(count, n_damp):
    if count < n_damp and n_damp > 0:
        return 0.5 * (math.sin(math.pi * (-0.5 + (count + 1) / float(n_damp))) + 1.0)
    return 1.0


def execute(sc, prop):
    try:
        dt0 = float(sc['dt'])
        tf = float(sc['tf'])
        pfreq = int(sc.get('pfreq', 1))
        times = [float(x) for x in sc.get('times', [])]
        n_damp = int(sc.get('n_damp', 0))
        adaptive = bool(sc.get('adaptive'))
        answers = [None if a is None else float(a) for a in sc.get('answers', [])]
        max_steps = sc.get('max_steps')
        max_steps = None if max_steps is None else int(max_steps)
    except Exception as e:
        raise InvalidScenario(repr(e))
    if not (dt0 > 0 and tf > 0 and pfreq >= 1 and n_damp >= 0) or any(a is not None and not a > 0 for a in answers):
        raise InvalidScenario('non-positive parameter')
    if not all(math.isfinite(x) for x in [dt0, tf] + times):
        raise InvalidScenario('non-finite')
    if times != sorted(times):
        raise InvalidScenario('unsorted times')
    if max_steps is not None and max_steps < 1:
        raise InvalidScenario('max_steps')
    # bound the work: expected number of steps
    smallest = min([dt0] + [a for a in answers if a is not None])
    if _damp(0, n_damp) * smallest <= 0:
        raise InvalidScenario('zero step')
    est = tf / smallest + n_damp * 3 + 10
    cap = max_steps if max_steps is not None else None
    if (cap is None and est > 6000) or (cap is not None and min(est, cap) > 6000):
        raise InvalidScenario('too many steps')
    dup_class = bool(sc.get('dup_class'))

    import pysph.solver.solver as SM
    import pysph.solver.utils as SU
    h = H()
    h.log = []
    h.dumps = []
    h.nsteps = 0
    integ = FakeIntegrator(h, answers)
    setters = sc.get('setters') or []
    if not isinstance(setters, list) or any(k not in SETTER_KEYS for k in setters) or len(set(setters)) != len(setters):
        raise InvalidScenario('setters')
    dt_given = (int(dt0) if sc.get('dt_as_int') and dt0 == int(dt0) else dt0)
    ctor = dict(tf=tf, dt=dt_given, adaptive_timestep=adaptive, n_damp=n_damp, pfreq=pfreq, output_at_times=times)
    for k in setters:
        ctor.pop(dict(times='output_at_times', adaptive='adaptive_timestep').get(k, k))
    solver = SM.Solver(dim=1, integrator=integ, **ctor)
    for k in setters:
        if k == 'tf':
            solver.set_final_time(tf)
        elif k == 'times':
            solver.set_output_at_times(times)
        elif k == 'dt':
            solver.set_time_step(dt_given)
        elif k == 'pfreq':
            solver.set_print_freq(pfreq)
        elif k == 'n_damp':
            solver.set_n_damp(n_damp)
        else:
            solver.set_adaptive_timestep(adaptive)
    if setters:
        probe_later = ['configured_through_setters'] + (['times_set_before_tf'] if ('tf' in setters and (
            'times' not in setters or setters.index('times') < setters.index('tf'))) else [])
    else:
        probe_later = []
    if max_steps is not None:
        solver.max_steps = max_steps
    solver.particles = [FakePA(h)]

    def rec_dump():
        h.log.append(('dump', solver.t, solver.count, dict(solver._get_solver_data())))
    solver.dump_output = rec_dump
    # another solver of the same process has callbacks of its own (registered through the public methods); they must
    # never run during this solver's steps
    if sc.get('decoy', 1):
        decoy = SM.Solver(dim=1, integrator=FakeIntegrator(h, []), tf=tf, dt=dt_given)
        decoy.add_pre_step_callback(lambda s: h.log.append(('foreign', 'pre')))
        decoy.add_post_step_callback(lambda s: h.log.append(('foreign', 'post')))
    via_api = bool(int(sc.get('n_pre', 0)) + int(sc.get('n_post', 0))) and len(sc.get('answers') or []) % 2 == 0
    for i in range(int(sc.get('n_pre', 0))):
        cb = (lambda s, i=i: h.log.append(('pre', i, s.t)))
        solver.add_pre_step_callback(cb) if via_api else solver.pre_step_callbacks.append(cb)
    for i in range(int(sc.get('n_post', 0))):
        cb = (lambda s, i=i: h.log.append(('post', i, s.t)))
        solver.add_post_step_callback(cb) if via_api else solver.post_step_callbacks.append(cb)
    ci = int(sc.get('cmd_interval', 0))
    if ci > 0:
        solver.set_command_handler(lambda s: h.log.append(('cmd', s.count)), ci)

    clock = FakeClock(sc.get('clock', []))
    real_time_mod = SU.time
    real_stdout = sys.stdout
    viol = []
    probes = {}

    def probe(n, k=1):
        probes[n] = probes.get(n, 0) + k

    def violate(inv, detail, **sig):
        if len(viol) < 6:
            viol.append(dict(invariant=inv, detail=detail, sig=sig))
    for pn in probe_later:
        probe(pn)
    crashed = None
    try:
        SU.time = clock
        if sc.get('tty'):
            sys.stdout = FakeTTY()
        try:
            solver.solve(show_progress=True)
            if sc.get('resume') and est <= 6000 and max_steps is not None and (tf - solver.t) > 100 * EPS2 * tf * max(1, solver.count):
                # the run stopped at max_steps is continued with a second solve() on the same solver
                h.log.append(('resume', solver.t, solver.count))
                solver.set_max_steps(1 << 31)
                if sc.get('resume_no_damping') and solver.count < n_damp:
                    # the continuation runs without the initial damping
                    h.log.append(('ndamp0', solver.count))
                    solver.set_n_damp(0)
                solver.solve(show_progress=True)
        except Exception as e:
            import traceback
            crashed = traceback.format_exc()
    finally:
        SU.time = real_time_mod
        sys.stdout = real_stdout
    if clock.back:
        probe('clock_jump_back', clock.back)
    if crashed is not None:
        violate('solve-raised', 'solve() raised: ' + crashed[-900:], tty=bool(sc.get('tty')))

    # ---- oracle over the recorded history
    damp = _damp
    resumed = any(e[0] == 'resume' for e in h.log)
    ndamp_off_from = next((e[1] for e in h.log if e[0] == 'ndamp0'), None)
    if ndamp_off_from is not None:
        probe('damping_switched_off_for_the_continuation')
        n_damp_first = n_damp

        def damp(count, n_damp_):
            if count >= ndamp_off_from:
                return 1.0
            if count < n_damp_first and n_damp_first > 0:
                return 0.5 * (math.sin(math.pi * (-0.5 + (count + 1) / float(n_damp_first))) + 1.0)
            return 1.0
    if resumed:
        probe('continued_with_a_second_solve')
        max_steps = None
    E = EPS2 * tf
    steps = [(e[1], e[2]) for e in h.log if e[0] == 'step']
    dumps = [(e[1], e[2], e[3]) for e in h.log if e[0] == 'dump']
    nst = len(steps)

    def tol(k):
        return 4 * E * (k + 1)
    if dt0 > tf:
        probe('dt_larger_than_tf')
    # model of the nominal step while walking the log
    undamped = float(dt0)
    count = 0
    t_model = 0.0
    pending_pre = 0
    pattern = []
    last_step_t_after = 0.0
    in_requested = [T for T in times if 0 < T < tf]
    for i in range(len(in_requested) - 1):
        if in_requested[i + 1] - in_requested[i] <= 0:
            dup_class = True
    stopped_by_max = False
    if crashed is None:
        n_pre = int(sc.get('n_pre', 0))
        n_post = int(sc.get('n_post', 0))
        i = 0
        log = h.log
        # walk
        pre_seen = []
        post_seen = []
        step_index = 0
        t_cur = 0.0
        last_dump = dumps_last(log)
        cur_state = 0
        seen_cts = False
        if adaptive and answers:
            if answers[0] is None:
                probe('adaptive_none')
            else:
                undamped = answers[0]
        for e in log:
            kind = e[0]
            if kind in ('step', 'dump') and adaptive and answers and cur_state != step_index:
                # the integrator's current stable step for the state reached after step_index steps
                while cur_state < step_index:
                    cur_state += 1
                    a = answers[cur_state % len(answers)]
                    if a is None:
                        probe('adaptive_none')
                    else:
                        if a > 5 * undamped or a < 0.2 * undamped:
                            probe('adaptive_jump')
                        undamped = a
            if kind == 'foreign':
                violate('callbacks', 'a %s-step callback registered on another Solver instance ran during this solver\'s step %d' % (e[1], step_index))
                break
            if kind == 'cts':
                seen_cts = True
            elif kind == 'pre':
                pre_seen.append(e[1])
            elif kind == 'post':
                post_seen.append(e[1])
            elif kind == 'step':
                ts, d = e[1], e[2]
                k = step_index
                if pre_seen != list(range(n_pre)):
                    violate('callbacks', 'pre-step callbacks before step %d ran as %r, expected once each in order' % (k, pre_seen))
                pre_seen = []
                if k > 0 and post_seen != list(range(n_post)):
                    violate('callbacks', 'post-step callbacks after step %d ran as %r' % (k - 1, post_seen))
                post_seen = []
                if not d > 0:
                    violate('nonpositive-step', 'step %d has dt=%r at t=%r' % (k, d, ts))
                if abs(ts - t_cur) > tol(k):
                    violate('time-discontinuity', 'step %d starts at t=%r, previous step ended at %r' % (k, ts, t_cur))
                nominal = undamped * damp(k, n_damp)
                if d > nominal * (1 + 1e-12) + tol(k):
                    violate('step-exceeds-nominal', 'step %d dt=%r exceeds the current nominal step %r (undamped %r, damping %r)'
                            % (k, d, nominal, undamped, damp(k, n_damp)))
                t_new = ts + d
                if not t_new > ts:
                    violate('time-not-increasing', 'step %d from t=%r with dt=%r does not advance time' % (k, ts, d))
                if t_new > tf + tol(k + 1):
                    violate('overshoot-tf', 'step %d ends at %r beyond tf=%r' % (k, t_new, tf))
                crossed = []
                for T in in_requested:
                    if ts < T - tol(k + 1) and t_new > T + tol(k + 1):
                        crossed.append(T)
                    if abs(t_new - T) <= tol(k + 1) and d < nominal * (1 - 1e-9) - tol(k) and abs(t_new - tf) > tol(k + 1):
                        probe('landed_on_requested_time')
                        if damp(k, n_damp) < 1.0:
                            probe('damping_during_landing')
                    if abs(t_new - T) <= tol(k + 1) and abs(d - nominal) <= 1e-9 * nominal:
                        probe('requested_equals_step_time')
                if k == 0 and any(0 < T < ts + nominal for T in in_requested):
                    probe('requested_in_first_step')
                if crossed:
                    first = (k == 0)
                    violate('jumped-over-requested-time',
                            'step %d went from t=%r to t=%r past requested output time(s) %r' % (k, ts, t_new, crossed[:3]),
                            first_step=first, dup_class=dup_class)
                nin = sum(1 for T in in_requested if ts + tol(k) < T <= ts + nominal)
                if nin >= 2:
                    probe('two_requested_in_one_step')
                if abs(t_new - tf) <= tol(k + 1) and d < nominal * (1 - 1e-9):
                    probe('tf_clip')
                pattern.append((0 if abs(d - nominal) <= 1e-9 * nominal else 1))
                t_cur = t_new
                step_index += 1
            elif kind == 'dump':
                td, cd, data = e[1], e[2], e[3]
                pattern.append(2)
                # recorded step size is the nominal (undamped) one
                k = step_index
                nominal = undamped * damp(k, n_damp)
                is_last_dump = (e is last_dump)
                clipped_for_tf = (td + nominal > tf - tol(k + 1))
                if not is_last_dump and not clipped_for_tf:
                    rd = data.get('dt')
                    # the initial dump is written before the integrator is first asked: the given dt
                    ref = float(dt0) if (k == 0 and not seen_cts) else undamped
                    if rd is None or abs(rd - ref) > 1e-9 * ref:
                        violate('recorded-dt-not-nominal',
                                'dump at t=%r count=%d records dt=%r but the nominal (undamped) step is %r' % (td, cd, rd, ref))
                if abs(data.get('t', td) - td) > 0 or data.get('count') != cd:
                    violate('solver-data', 'dump records %r at t=%r count=%d' % (data, td, cd))
        if step_index > 0 and post_seen != list(range(n_post)):
            violate('callbacks', 'post-step callbacks after the last step ran as %r' % (post_seen,))
        # termination
        if max_steps is not None and nst >= max_steps and abs(t_cur - tf) > tol(nst):
            stopped_by_max = True
            probe('max_steps_stop')
        if max_steps is not None and nst > max_steps:
            violate('max-steps-exceeded', '%d steps taken with max_steps=%d' % (nst, max_steps))
        if not stopped_by_max and abs(t_cur - tf) > tol(nst):
            violate('did-not-reach-tf', 'solve() returned at t=%r, tf=%r after %d steps' % (t_cur, tf, nst))
        # output schedule
        if not dumps or dumps[0][0] != 0 or dumps[0][1] != 0:
            violate('no-initial-dump', 'first dump is %r' % (dumps[:1],))
        if not dumps or abs(dumps[-1][0] - t_cur) > tol(nst) or dumps[-1][1] != nst:
            violate('no-final-dump', 'last dump %r, final state t=%r count=%d' % (dumps[-1:] and dumps[-1][:2], t_cur, nst))
        dump_counts = set(d[1] for d in dumps)
        tt = 0.0
        tends = []
        for (ts, d) in steps:
            tends.append(ts + d)
        for c in range(1, nst + 1):
            if c % pfreq == 0 and c not in dump_counts:
                violate('missing-pfreq-dump', 'no dump at iteration %d (pfreq=%d, t=%r)' % (c, pfreq, tends[c - 1]))
                break
        for T in in_requested:
            if T > t_cur + tol(nst):
                continue        # stopped early by max_steps
            if T == tf:
                probe('requested_equals_tf')
            ok = any(abs(d[0] - T) <= tol(d[1] + 1) for d in dumps)
            if not ok:
                first = bool(steps) and T < steps[0][0] + steps[0][1] + tol(1) and T > 0
                near = min((abs(d[0] - T), d[0]) for d in dumps)
                violate('requested-time-not-dumped',
                        'no dump at requested time %r (closest dump at t=%r); times=%r' % (T, near[1], times[:8]),
                        first_step=first and (steps[0][0] + steps[0][1] > T + tol(1)), dup_class=dup_class)
        if any(T == tf for T in times):
            probe('requested_equals_tf')
        if any(e[0] == 'cts' for e in log) and solver._prev_dt is None and probes.get('landed_on_requested_time'):
            probe('prev_dt_restored')
        elif probes.get('landed_on_requested_time') and nst > 0:
            probe('prev_dt_restored')
    return dict(violations=viol, digest=digest(repr((pattern[:400], len(pattern)))), nontrivial=nst >= 2,
                faults=dict(clock_jump_back=clock.back, adaptive_none=probes.get('adaptive_none', 0),
                            adaptive_jump=probes.get('adaptive_jump', 0)),
                probes=probes, sim=float(t_cur if crashed is None else 0.0), inconclusive=False)


def dumps_last(log):
    for e in reversed(log):
        if e[0] == 'dump':
            return e
    return None
