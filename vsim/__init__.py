"""vsim: deterministic simulation kit used by the checks in /verif.

choices  - seeded choice tape (the only source of randomness)
build    - overlay of /repo's working tree with freshly built extensions
runner   - seeded search over many runs, shrinking, replay, evidence
simthreads - simulated `threading` (locks, conditions, threads) under a
           seeded scheduler
omp_sim  - simulated OpenMP loop scheduler used through the guarded hooks
"""
